"""Seeded generator of array-operation histories for C14.

A history is (init_elems, ops): `init_elems` the tokens of the initial array literal (`_` = hole), `ops` a
list of op lines in the wire format shared by harness/src/bin/arrops.rs and ocaml/C14/c14_driver.ml.
Every history is later run three ways (A real array, B plain array-like, C Proxy-wrapped array).

Families (the `family` field, measured in the evidence):
  tour     drives the storage through DenseI32 -> DenseF64 -> DenseElement -> SparseElement -> SparseProperty
           (and back to dense forms by popping / re-creating) with random operations in between
  random   weighted random operations
  frozen   freeze / seal / preventExtensions, then mutating methods (fill, copyWithin, push, pop, ...)
  lenshrink  non-configurable / accessor elements, then `length` writes and defineProperty on length
  sync     operations that keep an array and an array-like in step, plus the methods that are compared by
           (a)/(b)/(c) differential only (sort, toSorted, flat, flatMap, iteration methods, ...)
  edge     malformed / boundary stream: invalid lengths, huge lengths and indices, +-Infinity arguments,
           descriptors mixing accessor and data fields
  lenic    `a.length = v` through one by-name site (warm inline cache)
  species  (ext) spec-oracle queries: builtins writing into an array handed back by a custom / species constructor
           (Array.of / Array.from with a constructor, slice / splice / concat / map / filter with @@species) and index
           stores / reads through `super[i]` whose receiver is not the array, between ordinary mutations
"""
import struct

INTS = [0, 1, 2, 3, 5, 7, -1, 42, 2147483647, -2147483648]
# doubles: (bits, ToString)
DOUBLES = [
    (0x3ff8000000000000, "1.5"), (0x8000000000000000, "0"), (0x7ff8000000000000, "NaN"),
    (0x4004000000000000, "2.5"), (0x4014000000000000, "5"), (0x3fb999999999999a, "0.1"),
    (0x7ff0000000000000, "Infinity"), (0xfff0000000000000, "-Infinity"),
    (0x41e0000000000000, "2147483648"), (0xc1e0000000200000, "-2147483649"),
    (0x41f0000000000000, "4294967296"), (0x444b1ae4d6e2ef50, "1e+21"), (0x0000000000000001, "5e-324"),
    (0xbff0000000000000, "-1"), (0x4000000000000000, "2"),
]
OTHERS = ["u", "n", "t", "f", "s1", "s2", "s3", "o1", "o2", "o5", "o6"]
TOSTRING = {"t": "true", "f": "false", "s1": "s1", "s2": "s2", "s3": "s3", "o1": "[object Object]",
            "o2": "[object Object]", "o3": "[object Object]", "o4": "[object Object]", "o5": "1,2", "o6": "3,4",
            "o7": "", "o8": "[object Object]", "o9": "[object Object]"}
for _b, _s in DOUBLES:
    TOSTRING["d%016x" % _b] = _s


def bits_of_int(z):
    return struct.unpack("<Q", struct.pack("<d", float(z)))[0]


def tostring(tok):
    """JS ToString of a canonical output token (numbers are printed as d<bits> by both sides)."""
    if tok in TOSTRING:
        return TOSTRING[tok]
    if tok.startswith("d"):
        x = struct.unpack("<d", struct.pack("<Q", int(tok[1:], 16)))[0]
        if x == int(x) and abs(x) < 1e21:
            return str(int(x))
        return None
    if tok.startswith("i"):
        return tok[1:]
    return None


class Gen:
    def __init__(self, rng, thorough=False, ext=False):
        self.r = rng
        self.thorough = thorough
        self.ext = ext
        if ext:
            self.FAMILIES = self.FAMILIES + [("species", 8)]

    # ---- values ----
    def vint(self):
        r = self.r
        return "i%d" % (r.choice(INTS) if r.random() < 0.7 else r.randrange(-20, 100))

    def vdouble(self):
        return "d%016x" % self.r.choice(DOUBLES)[0]

    def vother(self):
        return self.r.choice(OTHERS)

    def value(self, w=(6, 3, 3)):
        x = self.r.random() * sum(w)
        if x < w[0]:
            return self.vint()
        if x < w[0] + w[1]:
            return self.vdouble()
        return self.vother()

    def values(self, lo, hi, w=(6, 3, 3)):
        return [self.value(w) for _ in range(self.r.randint(lo, hi))]

    def rel(self, n, allow_inf=True):
        r = self.r
        x = r.random()
        if x < 0.15:
            return "u"
        if allow_inf and x < 0.19:
            return r.choice(["+inf", "-inf"])
        if x < 0.23:
            return str(r.choice([-100, 100, 2147483648, -2147483649, 4294967296]))
        return str(r.randint(-n - 2, n + 2))

    def idx(self, n, far=0.1):
        r = self.r
        x = r.random()
        if x < far:
            return r.choice([n + 3, n + 8, 15, 20, 31])
        if x < far + 0.15:
            return n          # one past the end: the push position
        if n == 0:
            return r.randint(0, 2)
        return r.randrange(0, n)

    def fields(self, kind=None):
        """Descriptor fields for def/deflen."""
        r = self.r
        kind = kind or r.choice(["data", "data", "data", "acc", "generic", "partial"])
        fs = []
        if kind == "data":
            fs.append("v=" + self.value())
            for f in "wec":
                x = r.random()
                if x < 0.45:
                    fs.append("%s=1" % f)
                elif x < 0.8:
                    fs.append("%s=0" % f)
        elif kind == "acc":
            if r.random() < 0.85:
                fs.append("g=" + r.choice(["1", "2", "3", "u"]))
            if r.random() < 0.6:
                fs.append("s=" + r.choice(["1", "2", "u"]))
            if not fs:
                fs.append("g=1")
            for f in "ec":
                x = r.random()
                if x < 0.5:
                    fs.append("%s=1" % f)
                elif x < 0.8:
                    fs.append("%s=0" % f)
        elif kind == "generic":
            for f in "ec":
                if r.random() < 0.6:
                    fs.append("%s=%d" % (f, r.randint(0, 1)))
        else:  # partial data: value only / writable only
            if r.random() < 0.5:
                fs.append("v=" + self.value())
            else:
                fs.append("w=%d" % r.randint(0, 1))
            if r.random() < 0.3:
                fs.append("c=%d" % r.randint(0, 1))
        return fs

    def arr_arg(self):
        r = self.r
        n = r.randint(0, 3)
        return "[" + ",".join("_" if r.random() < 0.2 else self.value() for _ in range(n)) + "]"

    # ---- single ops; `n` is the generator's estimate of the current length ----
    def op_query(self, n):
        r = self.r
        k = r.choice(["get", "get", "indexOf", "lastIndexOf", "includes", "join", "at", "slice", "concat"])
        if k == "get":
            return "get %d" % self.idx(n, 0.15)
        if k == "indexOf":
            return "indexOf %s %s" % (self.value((3, 4, 3)), self.rel(n))
        if k == "lastIndexOf":
            return "lastIndexOf %s" % self.value((3, 4, 3)) + ("" if r.random() < 0.5 else " " + self.rel(n))
        if k == "includes":
            return "includes %s %s" % (self.value((3, 4, 3)), self.rel(n))
        if k == "join":
            return "join" + r.choice(["", " 1", " 2"])
        if k == "at":
            return "at " + self.rel(n)
        if k == "slice":
            return "slice %s %s" % (self.rel(n), self.rel(n))
        return "concat " + " ".join(self.arr_arg() for _ in range(r.randint(0, 2)))

    def op_mutate(self, n, w=(6, 3, 3), sync=False):
        """Returns (op, new estimate of the length)."""
        r = self.r
        choices = ["set", "set", "set", "push", "push", "pop", "shift", "unshift", "splice", "reverse", "fill",
                   "copyWithin", "del", "def", "len"]
        k = r.choice(choices)
        if n > 12 and r.random() < 0.6:
            k = r.choice(["pop", "shift", "splice_del", "len_small"] if not sync else ["pop", "shift", "splice_del"])
        if k == "set":
            i = self.idx(n, 0.0 if sync else 0.1)
            if sync and i >= n:
                return "push " + self.value(w), n + 1
            return "set %d %s" % (i, self.value(w)), max(n, i + 1)
        if k == "push":
            vs = self.values(0, 3, w)
            return "push " + " ".join(vs), n + len(vs)
        if k == "pop":
            return "pop", max(0, n - 1)
        if k == "shift":
            return "shift", max(0, n - 1)
        if k == "unshift":
            vs = self.values(0, 2, w)
            return "unshift " + " ".join(vs), n + len(vs)
        if k == "splice":
            x = r.random()
            if x < 0.1:
                return "splice", n
            if x < 0.2:
                return "splice " + self.rel(n), n // 2
            vs = self.values(0, 3, w)
            return "splice %s %s %s" % (self.rel(n), self.rel(3, False), " ".join(vs)), n + len(vs)
        if k == "splice_del":
            return "splice %d %d" % (r.randint(0, 3), r.randint(2, 6)), max(0, n - 3)
        if k == "reverse":
            return "reverse", n
        if k == "fill":
            return "fill %s %s %s" % (self.value(w), self.rel(n), self.rel(n)), n
        if k == "copyWithin":
            return "copyWithin %s %s %s" % (self.rel(n), self.rel(n), self.rel(n)), n
        if k == "del":
            return "del %d" % self.idx(n, 0.05), n
        if k == "def":
            i = self.idx(n, 0.0 if sync else 0.08)
            if sync and i >= n:
                i = max(0, n - 1)
            return "def %d %s" % (i, " ".join(self.fields())), max(n, i + 1)
        if k == "len_small":
            m = r.randint(0, 4)
            return "len i%d" % m, m
        # len
        if sync:
            m = n + r.randint(0, 3)       # grow only: an array-like does not delete on shrink
        else:
            m = r.choice([0, max(0, n - 1), max(0, n - 2), n, n + 1, n + 4, r.randint(0, 14)])
        return "len i%d" % m, m

    def init(self, family):
        r = self.r
        x = r.random()
        n = r.randint(0, 6)
        if family == "tour" or x < 0.4:
            return ["i%d" % r.randint(-3, 9) for _ in range(n)]
        if x < 0.55:
            return [self.vdouble() if r.random() < 0.5 else self.vint() for _ in range(n)]
        if x < 0.75:
            return [self.value() for _ in range(n)]
        return ["_" if r.random() < 0.3 else self.value() for _ in range(n)]

    # ---- families ----
    def h_random(self, length):
        elems = self.init("random")
        n = len(elems)
        ops = []
        for _ in range(length):
            if self.r.random() < 0.3:
                ops.append(self.op_query(n))
            elif self.r.random() < 0.04:
                ops.append(self.r.choice(["pe", "seal", "freeze"]))
            else:
                o, n = self.op_mutate(n)
                ops.append(o)
        return elems, ops

    def h_tour(self, length):
        """DenseI32 -> DenseF64 -> DenseElement -> SparseElement -> SparseProperty, random ops between the stages."""
        r = self.r
        elems = self.init("tour")
        n = len(elems)
        ops = []
        per = max(1, length // 6)

        def some(w):
            nonlocal n
            for _ in range(r.randint(0, per)):
                if r.random() < 0.3:
                    ops.append(self.op_query(n))
                else:
                    o, n = self.op_mutate(n, w, sync=True)
                    ops.append(o.replace("def ", "set ") if o.startswith("def ") and False else o)

        ints = (1, 0, 0)
        nums = (2, 3, 0)
        some_dense = lambda w: [ops.append("push " + " ".join(self.values(1, 2, w))), None]
        # stage 1: packed ints
        for _ in range(r.randint(0, per)):
            k = r.random()
            if k < 0.4:
                vs = self.values(1, 2, ints); ops.append("push " + " ".join(vs)); n += len(vs)
            elif k < 0.6 and n:
                ops.append("set %d %s" % (r.randrange(n), self.vint()))
            elif k < 0.7:
                ops.append("pop"); n = max(0, n - 1)
            elif k < 0.8:
                ops.append("shift"); n = max(0, n - 1)
            else:
                ops.append(self.op_query(n))
        # stage 2: first double (a double that is an int32 keeps DenseI32; -0 / NaN / fraction do not)
        way = r.random()
        d = self.vdouble()
        if way < 0.4 or n == 0:
            ops.append("push " + d); n += 1
        elif way < 0.8:
            ops.append("set %d %s" % (r.randrange(n), d))
        else:
            ops.append("fill %s %d u" % (d, r.randrange(n)))
        some(nums)
        # stage 3: first non-number
        way = r.random()
        o = self.vother()
        if way < 0.4 or n == 0:
            ops.append("push " + o); n += 1
        elif way < 0.8:
            ops.append("set %d %s" % (r.randrange(n), o))
        else:
            ops.append("unshift " + o); n += 1
        some((4, 3, 3))
        # stage 4: a hole
        way = r.random()
        if way < 0.4:
            far = n + r.choice([1, 2, 5, 10]); ops.append("set %d %s" % (far, self.value())); n = far + 1
        elif way < 0.7 and n >= 2:
            ops.append("del %d" % r.randrange(0, n - 1))
        elif way < 0.85:
            ops.append("len i%d" % (n + 3)); n += 3
        else:
            far = n + r.choice([1, 4]); ops.append("def %d v=%s w=1 e=1 c=1" % (far, self.value())); n = far + 1
        for _ in range(r.randint(0, per)):
            if r.random() < 0.35:
                ops.append(self.op_query(n))
            else:
                o, n = self.op_mutate(n)
                ops.append(o)
        # stage 5: a non-default descriptor
        if n == 0:
            ops.append("push i1"); n = 1
        ops.append("def %d %s" % (self.idx(n, 0.05), " ".join(self.fields(r.choice(["data", "acc", "generic"])))))
        for _ in range(r.randint(0, per)):
            if r.random() < 0.35:
                ops.append(self.op_query(n))
            else:
                o, n = self.op_mutate(n)
                ops.append(o)
        # stage 6: shrink back
        way = r.random()
        if way < 0.4:
            ops.append("len i%d" % r.randint(0, 2))
        elif way < 0.7:
            ops.extend(["pop"] * r.randint(1, 4))
        else:
            ops.append("splice 0")
        n = 0
        for _ in range(r.randint(0, per)):
            if r.random() < 0.3:
                ops.append(self.op_query(n))
            else:
                o, n = self.op_mutate(n, ints if r.random() < 0.5 else (4, 3, 3))
                ops.append(o)
        return elems, ops

    def h_frozen(self, length):
        r = self.r
        elems = self.init("random")
        n = len(elems)
        ops = []
        for _ in range(r.randint(0, 3)):
            o, n = self.op_mutate(n)
            ops.append(o)
        if r.random() < 0.3:
            ops.append("def %d %s" % (self.idx(n, 0), " ".join(self.fields("acc"))))
        ops.append(r.choice(["freeze", "freeze", "seal", "pe"]))
        muts = ["fill", "copyWithin", "push", "pop", "shift", "unshift", "splice", "reverse", "set", "del", "len", "def"]
        for _ in range(length):
            k = r.choice(muts)
            x = r.random()
            if x < 0.2:
                ops.append(self.op_query(n))
            elif x < 0.26:
                ops.append(r.choice(["freeze", "seal", "pe"]))
            elif k == "fill":
                ops.append("fill %s %s %s" % (self.value(), self.rel(n), self.rel(n)))
            elif k == "copyWithin":
                ops.append("copyWithin %s %s %s" % (self.rel(n), self.rel(n), self.rel(n)))
            else:
                o, _ = self.op_mutate(n)
                ops.append(o)
        return elems, ops

    def h_lenshrink(self, length):
        r = self.r
        elems = [self.value() for _ in range(r.randint(2, 7))]
        n = len(elems)
        ops = []
        for _ in range(r.randint(1, 3)):
            i = r.randrange(n)
            kind = r.choice(["nc", "nc", "acc", "ro"])
            if kind == "nc":
                ops.append("def %d c=0" % i)
            elif kind == "acc":
                ops.append("def %d g=%d c=%d" % (i, r.randint(1, 3), r.randint(0, 1)))
            else:
                ops.append("def %d w=0" % i)
        for _ in range(length):
            x = r.random()
            if x < 0.3:
                ops.append("len i%d" % r.randint(0, n + 1))
            elif x < 0.45:
                fs = []
                if r.random() < 0.8:
                    fs.append("v=i%d" % r.randint(0, n + 2))
                if r.random() < 0.6:
                    fs.append("w=%d" % r.randint(0, 1))
                if r.random() < 0.1:
                    fs.append("c=%d" % r.randint(0, 1))
                if r.random() < 0.1:
                    fs.append("e=%d" % r.randint(0, 1))
                ops.append("deflen " + " ".join(fs))
            elif x < 0.6:
                ops.append(r.choice(["pop", "shift", "splice 0 2", "splice 1", "push i1 i2", "unshift i0", "reverse"]))
            elif x < 0.7:
                ops.append(self.op_query(n))
            else:
                o, n2 = self.op_mutate(n)
                ops.append(o)
                n = min(n2, 14)
        return elems, ops

    XQ = [  # (line template, mutating, usable on the plain array-like)
        ("x sort", True, True), ("x sortnum", True, True), ("q toSorted", False, True), ("q flat 1", False, True),
        ("q flat 2", False, True), ("q flat u", False, True), ("q flatMap", False, True), ("q forEach", False, True),
        ("q map", False, True), ("q filter", False, True), ("q some", False, True), ("q every", False, True),
        ("q find", False, True), ("q findIndex", False, True), ("q findLast", False, True),
        ("q findLastIndex", False, True), ("q reduce", False, True), ("q reduceRight", False, True),
        ("q keys", False, True), ("q values", False, True), ("q entries", False, True), ("q forin", False, False),
        ("q objkeys", False, False), ("q toReversed", False, True), ("q toSpliced 1 1", False, True),
        ("q toSpliced 0 0 i1 s1", False, True), ("q with 0 i9", False, True), ("q with -1 s2", False, True),
        ("q from", False, True), ("q toString", False, False), ("q hasOwn 0", False, True), ("q hasOwn 1", False, True),
        ("q isFrozen", False, False),
    ]

    def op_ext(self, n):
        """a spec-oracle query (harness returns "same" or "DIFF ...")"""
        r = self.r
        k = r.choice(["ofctor", "fromctor", "speciesSlice", "speciesSplice", "speciesConcat", "speciesMap", "speciesFilter",
                      "superset", "superset", "superget"])
        if k == "superset":
            return "q superset %d %s" % (self.idx(n, 0.3), self.value())
        if k == "superget":
            return "q superget %d" % self.idx(n, 0.3)
        return "q %s %d" % (k, r.randint(0, 1))

    def h_species(self, length):
        r = self.r
        elems = self.init("random")
        n = len(elems)
        ops = []
        for _ in range(length):
            x = r.random()
            if x < 0.5:
                ops.append(self.op_ext(n))
            elif x < 0.6:
                ops.append(self.op_query(n))
            else:
                o, n = self.op_mutate(n, r.choice([(1, 0, 0), (2, 3, 0), (4, 3, 3)]))
                ops.append(o)
        return elems, ops

    def h_sync(self, length):
        """Only operations after which an array and an equivalent array-like stay equivalent, mixed with the
        differential-only methods."""
        r = self.r
        elems = self.init("random")
        n = len(elems)
        ops = []
        for _ in range(length):
            x = r.random()
            if x < 0.45:
                if self.ext and r.random() < 0.15:
                    ops.append(self.op_ext(n))
                    continue
                t = r.choice(self.XQ)
                ops.append(t[0])
            elif x < 0.55:
                ops.append(self.op_query(n))
            elif x < 0.58:
                ops.append(r.choice(["pe", "seal", "freeze"]))
            else:
                w = r.choice([(1, 0, 0), (2, 3, 0), (4, 3, 3), (4, 3, 3)])
                o, n = self.op_mutate(n, w, sync=True)
                ops.append(o)
        return elems, ops

    def h_edge(self, length):
        r = self.r
        elems = self.init("random")
        n = len(elems)
        ops = []
        bad_len = ["i-1", "d3ff8000000000000", "d7ff8000000000000", "d41f0000000000000", "u", "d8000000000000000",
                   "n", "t", "f", "d41efffffffe00000", "dbff0000000000000", "d7ff0000000000000"]
        for _ in range(length):
            x = r.random()
            if x < 0.2:
                ops.append("len " + r.choice(bad_len))
            elif x < 0.3:
                ops.append("deflen v=%s" % r.choice(bad_len) + (" w=0" if r.random() < 0.3 else ""))
            elif x < 0.4:
                ops.append("def %d v=i1 g=1" % self.idx(n, 0.1))          # accessor + data fields: TypeError
            elif x < 0.5:
                big = r.choice([4294967294, 4294967293, 2147483647, 2147483648, 65536, 4294967290])
                ops.append(r.choice(["set %d i1", "get %d", "del %d", "def %d v=s1 w=1 e=1 c=1"]) % big)
            elif x < 0.6:
                ops.append(r.choice(["slice -inf +inf", "slice +inf -inf", "fill i0 -inf +inf", "copyWithin -inf 1 +inf",
                                     "at +inf", "at -inf", "indexOf i1 -inf", "indexOf i1 +inf", "lastIndexOf i1 -inf",
                                     "lastIndexOf i1 +inf", "includes u +inf", "splice -inf +inf", "splice +inf 1 i1",
                                     "splice u u", "splice 0 u i1", "lastIndexOf u u", "at u", "includes d7ff8000000000000 -inf"]))
            elif x < 0.75:
                ops.append(self.op_query(n))
            else:
                o, n = self.op_mutate(n)
                ops.append(o)
            if n > 14:
                n = 14
        return elems, ops

    def h_lenic(self, length):
        r = self.r
        elems = [self.value() for _ in range(r.randint(1, 6))]
        n = len(elems)
        ops = []
        for _ in range(length):
            x = r.random()
            if x < 0.5:
                m = r.randint(0, n + 2)
                ops.append("lenic i%d" % m)
                n = m
            elif x < 0.7:
                ops.append(self.op_query(n))
            else:
                o, n = self.op_mutate(n, sync=False)
                ops.append(o)
        return elems, ops

    FAMILIES = [("tour", 30), ("random", 25), ("frozen", 10), ("lenshrink", 10), ("sync", 15), ("edge", 8), ("lenic", 2)]

    def history(self, family=None):
        r = self.r
        if family is None:
            x = r.random() * sum(w for _, w in self.FAMILIES)
            for family, w in self.FAMILIES:
                if x < w:
                    break
                x -= w
        length = r.randint(6, 16) if not self.thorough else r.randint(10, 40)
        elems, ops = getattr(self, "h_" + family)(length)
        return {"family": family, "elems": elems, "ops": ops}
