"""C07 generator: histories of host entries on one context, produced twice from one plan:
  * as op lines for harness `vmops` (real JavaScript, real host API), and
  * as a behaviour tree (S-expression) for the extracted VmStack model (coq/C07/Model_C07.v),
with the register counts of the compiled blocks left symbolic (`R:<name>`) until the harness has dumped them.

A plan is a list of top-level entries; the body of every frame is a list of statements:
  ('probe',)                       probe(id);                         native call, observes the depths
  ('call', fn, args, mode)         fn(a, ...); / new fn(a, ...);      args: 'lit' or a nested ('call', ...) in argument position
  ('apply', fn, argc)              Reflect.apply(fn, undefined, [..]);       nested host [[Call]] from native code
  ('rconstruct', fn, argc)         Reflect.construct(fn, [..]);             nested host [[Construct]]
  ('try', body, catch)             try { body } catch (e) { catch }
  ('throw',) ('return',)
  ('recurse', fn)                  fn(1) with fn = function fn(a){ return fn(a) }   -> Recursion / StackSize limit
  ('loop',)                        for(;;){}                                         -> LoopIteration limit
  ('classcall', cls, argc)         cls(1)   class constructor without new            -> TypeError before a frame exists
  ('gencreate', genfn, argc, it)   globalThis.it = genfn(..)
  ('genresume', it, kind)          it.next(1) / it.return(1) / it.throw(1)
  ('promise', fn)                  Promise.resolve(1).then(fn)
The Python side walks the plan in execution order (it knows where every throw lands), the model decides
everything about limits, unwinding and truncation by itself.
"""
import random

NORMAL, THROW, RETURN, LIMIT = "normal", "throw", "return", "limit"


class Fn:
    def __init__(self, name, kind, nparams, nlocals, body=None, segments=None):
        self.name, self.kind, self.nparams, self.nlocals = name, kind, nparams, nlocals
        self.body = body if body is not None else []
        self.segments = segments          # generator functions: list of statement lists, split at the yields
        self.handlers = []                # static handler table (start, end, envc), filled by layout()
        self.fields = []                  # classes: call statements `f(1)` used as field initialisers
        self.base = None                  # classes: the parent class (derived constructor calls super(1) first)
        self.laid_out = False


class GenObj:
    def __init__(self, name, fn, index):
        self.name, self.fn, self.index = name, fn, index
        self.state = "start"              # start | int (suspended after segment i) | done


# ------------------------------------------------------------------------------------------------
# static layout: abstract pcs (every statement occupies [p, p+2); the VM's pc is p+1 while it runs) and handler ranges

def layout_body(stmts, counter, handlers):
    for s in stmts:
        s_pc = counter[0]
        counter[0] += 2
        s[1]["pc"] = s_pc + 1
        if s[0] == "finlimit":
            # try { throw } catch { throw } finally { for(;;){} }: the finally handler covers try + catch
            p = counter[0]
            counter[0] += 8
            s[1]["base"] = p
            handlers.append((p, p + 6, 0))
            handlers.append((p, p + 2, 0))
        if s[0] == "try":
            start = counter[0]
            slot = len(handlers)
            handlers.append(None)
            layout_body(s[2], counter, handlers)
            end = counter[0]
            handlers[slot] = (start, end, 0)
            # the landing pc is `end`; the catch body follows
            layout_body(s[3], counter, handlers)


def layout(fn):
    if fn.laid_out:
        return
    fn.laid_out = True
    counter = [2]
    hs = []
    if fn.kind == "gen":
        for seg in fn.segments:
            layout_body(seg, counter, hs)
            counter[0] += 2
    else:
        layout_body(fn.body, counter, hs)
    # find_handler searches innermost-last: inner try blocks are appended before outer ones by the recursion above,
    # boa appends a handler when its try block is closed (inner first) as well
    fn.handlers = hs


def rec_level(fn, inner_call):
    """body of one activation of `function r(a){ probe(id); return r(a); }`"""
    return "(pc 3) (push 3) (callnative 1 0 ((probe %d))) (pop 1) (pc 5) %s" % (fn.probe_id, inner_call)


def rec_chain(fn, depth):
    """the call r(a) whose callee recurses `depth` levels deep (deep enough to hit a limit)"""
    inner = "(push 3) (call 1 R:%s () 0 0 0 ((ret)))" % fn.name
    for _ in range(depth):
        inner = "(push 3) (call 1 R:%s () 0 0 0 (%s))" % (fn.name, rec_level(fn, inner))
    return inner


def mk(kind, *rest):
    """statement constructor: (kind, info-dict, ...)"""
    return (kind, {}) + tuple(rest)


# ------------------------------------------------------------------------------------------------
# JavaScript text

def js_args(n):
    return ", ".join(str(i + 1) for i in range(n))


def js_call_expr(s):
    _, _, fn, args, mode = s
    parts = []
    for a in args:
        parts.append("1" if a == "lit" else js_call_expr(a))
    return ("new " if mode == "new" else "") + fn.name + "(" + ", ".join(parts) + ")"


def js_body(stmts, probe_ids):
    out = []
    for s in stmts:
        k = s[0]
        if k == "probe":
            out.append("probe(%d);" % s[1]["id"])
        elif k == "call":
            out.append(js_call_expr(s) + ";")
        elif k == "apply":
            out.append("Reflect.apply(%s, undefined, [%s]);" % (s[2].name, js_args(s[3])))
        elif k == "rconstruct":
            out.append("Reflect.construct(%s, [%s]);" % (s[2].name, js_args(s[3])))
        elif k == "try":
            out.append("try { " + js_body(s[2], probe_ids) + " } catch (e) { " + js_body(s[3], probe_ids) + " }")
        elif k == "throw":
            out.append("throw 1;")
        elif k == "return":
            out.append("return;")
        elif k == "recurse":
            out.append("%s(1);" % s[2].name)
        elif k == "loop":
            out.append("for(;;){}")
        elif k == "finlimit":
            out.append("try { throw 1; } catch (e) { throw 2; } finally { for(;;){} }")
        elif k == "classcall":
            out.append("%s(%s);" % (s[2].name, js_args(s[3])))
        elif k == "gencreate":
            out.append("globalThis.%s = %s(%s);" % (s[4], s[2].name, js_args(s[3])))
        elif k == "genresume":
            out.append("%s.%s(1);" % (s[2], s[3]))
        elif k == "promise":
            out.append("Promise.resolve(1).then(%s);" % s[2].name)
        elif k == "promise_construct":
            out.append("Promise.resolve(1).then(Reflect.apply.bind(undefined, Reflect.construct, undefined, [%s, []]));" % s[2].name)
        else:
            raise ValueError(k)
    return " ".join(out)


def js_fn(fn, probe_ids):
    params = ", ".join("p%d" % i for i in range(fn.nparams))
    locs = ("var " + ", ".join("l%d = %d" % (i, i) for i in range(fn.nlocals)) + "; ") if fn.nlocals else ""
    if fn.kind == "fn":
        return "function %s(%s){ %s%s }" % (fn.name, params, locs, js_body(fn.body, probe_ids))
    if fn.kind == "rec":
        return "function %s(a){ %sprobe(%d); return %s(a); }" % (fn.name, locs, fn.probe_id, fn.name)
    if fn.kind == "class":
        fields = " ".join("x%d = %s;" % (i, js_call_expr(f)) for i, f in enumerate(fn.fields))
        return "class %s%s { %s constructor(%s){ %s%s%s } } globalThis.%s = %s;" % (
            fn.name, (" extends " + fn.base.name) if fn.base else "", fields, params, "super(1); " if fn.base else "", locs,
            js_body(fn.body, probe_ids), fn.name, fn.name)
    if fn.kind == "gen":
        segs = []
        for i, seg in enumerate(fn.segments):
            segs.append(js_body(seg, probe_ids))
        body = (" yield 1; ").join(segs)
        return "function* %s(%s){ %s%s }" % (fn.name, params, locs, body)
    raise ValueError(fn.kind)


def esc(s):
    return s.replace("\\", "\\\\").replace("\n", "\\n").replace("\t", "\\t")


# ------------------------------------------------------------------------------------------------
# the walk: model actions in execution order

class Walk:
    """Walks a plan in execution order, emitting model actions; keeps the state Python must track
    (generator objects, pending promise jobs)."""

    def __init__(self, rlimit, slimit):
        self.rlimit, self.slimit = rlimit, slimit
        self.gens = {}          # global name -> GenObj
        self.ngens = 0
        self.jobs = []          # pending promise reaction handlers (Fn)
        self.depth = 0

    def regs(self, fn):
        return "R:" + fn.name

    def hs(self, fn):
        layout(fn)
        return "(" + " ".join("(%d %d %d)" % h for h in fn.handlers) + ")"

    # --- statements -------------------------------------------------------------------------
    def body(self, stmts):
        acts = []
        for s in stmts:
            a, out = self.stmt(s)
            acts += a
            if out != NORMAL:
                return acts, out
        return acts, NORMAL

    def frame_body(self, fn):
        """actions of one activation of an ordinary function / class constructor body"""
        a, out = self.body(fn.body)
        if out == RETURN:
            out = NORMAL
        return a, out

    def init_racts(self, cls):
        """InitializeInstanceElements of cls: every field initialiser is a nested host [[Call]] of an anonymous function"""
        parts, out = [], NORMAL
        for i, f in enumerate(cls.fields):
            b, out = self.call_expr(f, False, 3)
            parts.append("(hcall 0 R:%s__f%d () 0 0 (%s)) (propagate 1)" % (cls.name, i, " ".join(b)))
            if out != NORMAL:
                break
        return " ".join(parts), out

    def class_body(self, cls):
        """constructor body of cls; a derived constructor first calls super(1) and then initialises its own fields"""
        acts = []
        if cls.base:
            n, out = self.new_form(cls.base, 1)
            acts += ["(pc 1)", "(push 4)", n]
            if out != NORMAL:
                return acts, out
            acts.append("(pop 1)")
            ini, out = self.init_racts(cls)
            acts.append("(rust (%s))" % ini)
            if out != NORMAL:
                return acts, out
        b, out = self.frame_body(cls)
        return acts + b, out

    def new_form(self, cls, argc, host=False):
        """function_construct of class cls step by step: (init racts before the frame exists, then the body)"""
        if cls.base:
            ini, out = "", NORMAL
        else:
            ini, out = self.init_racts(cls)
        if out == NORMAL:
            b, out = self.class_body(cls)
        else:
            b = []
        return "(%s %d %s %s 0 0 (%s) (%s))" % ("hnew" if host else "new", argc, self.regs(cls), self.hs(cls), ini, " ".join(b)), out

    def call_expr(self, s, as_stmt, pc=None):
        _, info, fn, args, mode = s
        pc = info.get("pc", pc)
        acts = ["(pc %d)" % pc, "(push 2)"]
        for a in args:
            if a == "lit":
                acts.append("(push 1)")
            else:
                sub, out = self.call_expr(a, False, pc)
                acts += sub
                if out != NORMAL:
                    return acts, out
        argc = len(args)
        if fn.kind == "class" and mode != "new":
            acts.append("(callerr 1)")
            return acts, THROW
        if mode == "new" and fn.kind == "class":
            n, out = self.new_form(fn, argc)
            acts += ["(push 1)", n]
            if out == NORMAL and as_stmt:
                acts.append("(pop 1)")
            return acts, out
        if mode == "new":
            acts.append("(push 1)")
        if fn.kind == "gen":
            b, out = ["(gencreate)"], NORMAL
            self.ngens += 1
        else:
            b, out = self.frame_body(fn)
        acts.append("(call %d %s %s %d 0 0 (%s))" % (argc, self.regs(fn), self.hs(fn), 1 if mode == "new" else 0, " ".join(b)))
        if out == NORMAL and as_stmt:
            acts.append("(pop 1)")
        return acts, out

    def host_call(self, fn, argc, construct):
        """a nested/top-level JsObject::call / construct on fn: one ract"""
        if fn.kind == "class" and not construct:
            return "(hcallerr %d 1)" % argc, THROW
        if fn.kind == "class":
            return self.new_form(fn, argc, host=True)
        if fn.kind == "gen":
            b, out = ["(gencreate)"], NORMAL
            self.ngens += 1
        else:
            b, out = self.frame_body(fn)
        if construct:
            return "(hconstruct %d %s %s 0 0 1 (%s))" % (argc, self.regs(fn), self.hs(fn), " ".join(b)), out
        return "(hcall %d %s %s 0 0 (%s))" % (argc, self.regs(fn), self.hs(fn), " ".join(b)), out

    def resume(self, g, kind):
        """(ract, outcome) of one Generator.prototype.{next,return,throw} on g"""
        fn = g.fn
        idx = g.index
        if g.state == "done":
            return "(resume %d %s ())" % (idx, kind), (THROW if kind == "throw" else NORMAL)
        if g.state == "start" and kind != "next":
            g.state = "done"
            return "(resume %d %s ())" % (idx, kind), (THROW if kind == "throw" else NORMAL)
        first = g.state == "start"
        nxt = 0 if first else g.state + 1
        acts = ["(pop %d)" % (1 if first else 2)]
        if kind == "return":
            acts.append("(ret)")
            g.state = "done"
            return "(resume %d return (%s))" % (idx, " ".join(acts)), NORMAL
        if kind == "throw":
            acts.append("(throw)")
            g.state = "done"
            return "(resume %d throw (%s))" % (idx, " ".join(acts)), THROW
        g.state = "exec"
        b, out = self.body(fn.segments[nxt])
        acts += b
        if out == NORMAL:
            if nxt + 1 < len(fn.segments):
                acts.append("(yield)")
                g.state = nxt
            else:
                g.state = "done"
        elif out == RETURN:
            g.state = "done"
            out = NORMAL
        else:
            g.state = "done"
        return "(resume %d next (%s))" % (idx, " ".join(acts)), out

    def stmt(self, s):
        k, info = s[0], s[1]
        pc = "(pc %d)" % info["pc"]
        if k == "probe":
            return [pc, "(push 3)", "(callnative 1 0 ((probe %d)))" % info["id"], "(pop 1)"], NORMAL
        if k == "call":
            return self.call_expr(s, True)
        if k == "apply":
            r, out = self.host_call(s[2], s[3], False)
            acts = [pc, "(push 5)", "(callnative 3 0 (%s (propagate 1)))" % r]
            if out == NORMAL:
                acts.append("(pop 1)")
            return acts, out
        if k == "rconstruct":
            r, out = self.host_call(s[2], s[3], True)
            acts = [pc, "(push 4)", "(callnative 2 0 (%s (propagate 1)))" % r]
            if out == NORMAL:
                acts.append("(pop 1)")
            return acts, out
        if k == "try":
            a, out = self.body(s[2])
            if out == THROW:
                # the catch block starts with the Exception opcode (pending_exception.take())
                c, out2 = self.body(s[3])
                return a + ["(exception)"] + c, out2
            return a, out
        if k == "throw":
            return [pc, "(throw)"], THROW
        if k == "return":
            return [pc, "(ret)"], RETURN
        if k == "recurse":
            fn = s[2]
            # deep enough to hit one of the limits for sure
            minframe = 3 + 1
            depth = min(self.rlimit + 3, self.slimit // minframe + 3)
            return [pc, rec_chain(fn, depth)], LIMIT
        if k == "loop":
            return [pc, "(error 0)"], LIMIT
        if k == "finlimit":
            p = info["base"]
            return ["(pc %d)" % (p + 1), "(throw)", "(exception)", "(pc %d)" % (p + 3), "(throw)", "(pc %d)" % (p + 7), "(error 0)"], LIMIT
        if k == "classcall":
            return [pc, "(push %d)" % (2 + s[3]), "(callerr 1)"], THROW
        if k == "gencreate":
            fn, argc, name = s[2], s[3], s[4]
            self.gens[name] = GenObj(name, fn, self.ngens)
            self.ngens += 1
            return [pc, "(push %d)" % (2 + argc), "(call %d %s %s 0 0 0 ((gencreate)))" % (argc, self.regs(fn), self.hs(fn)), "(pop 1)"], NORMAL
        if k == "genresume":
            g = self.gens[s[2]]
            r, out = self.resume(g, s[3])
            acts = [pc, "(push 3)", "(callnative 1 0 (%s (propagate 1)))" % r]
            if out == NORMAL:
                acts.append("(pop 1)")
            return acts, out
        if k == "promise_construct":
            self.jobs.append(("construct", s[2]))
            return [pc, "(push 3)", "(callnative 1 0 ())", "(pop 1)", "(push 6)", "(callnative 4 0 ())", "(pop 1)", "(push 3)", "(callnative 1 0 ())", "(pop 1)"], NORMAL
        if k == "promise":
            self.jobs.append(s[2])
            return [pc, "(push 3)", "(callnative 1 0 ())", "(pop 1)", "(push 3)", "(callnative 1 0 ())", "(pop 1)"], NORMAL
        raise ValueError(k)


# ------------------------------------------------------------------------------------------------
# top-level entries

class Entry:
    """one host entry: harness op line, model ract (regs symbolic), planned outcome, plan category"""

    def __init__(self, op, ract, outcome, cat, defs=(), main=None):
        self.op, self.ract, self.outcome, self.cat = op, ract, outcome, cat
        self.defs = list(defs)      # functions whose blocks this eval dumps
        self.main = main            # symbolic name of the script block of this eval


def outcome_letter(out):
    return {NORMAL: "V", THROW: "T", LIMIT: "L"}[out]


class Builder:
    def __init__(self, rng, rlimit, slimit, looplimit, rich=True, size=1.0):
        self.rng = rng
        self.rlimit, self.slimit, self.looplimit = rlimit, slimit, looplimit
        self.rich = rich
        self.size = size
        self.walk = Walk(rlimit, slimit)
        self.nfn = 0
        self.nprobe = 0
        self.nmain = 0
        self.fns = []        # callable ordinary functions defined by successful entries: (Fn, outcome class)
        self.classes = []
        self.genfns = []
        self.recs = []
        self.gen_names = []
        self.new_defs = []

    # --- random plan pieces -------------------------------------------------------------------
    def fresh(self, prefix):
        self.nfn += 1
        return "%s%d" % (prefix, self.nfn)

    def probe(self):
        s = mk("probe")
        self.nprobe += 1
        s[1]["id"] = self.nprobe
        return s

    def new_fn(self, depth, want):
        """a new ordinary function whose activation ends with `want` (NORMAL/THROW/LIMIT or None = any)"""
        name = self.fresh("f")
        fn = Fn(name, "fn", self.rng.randrange(0, 4), self.rng.randrange(0, 4))
        fn.body = self.stmts(depth + 1, want, in_function=True)
        self.new_defs.append(fn)
        return fn

    def new_class(self, depth, want=NORMAL, allow_base=True):
        """a class; `want` != NORMAL: constructing it fails (a field initialiser, the parent, or the body)"""
        base = None
        where = self.rng.choice(["field", "field", "body", "base"]) if want != NORMAL else None
        if allow_base and depth < 3 and (where == "base" or self.rng.random() < 0.3):
            base = self.new_class(depth + 1, want if where == "base" else NORMAL, allow_base=False)
        elif where == "base":
            where = "field"
        fields = []
        for _ in range(self.rng.randrange(0, 3)):
            fields.append(mk("call", self.new_fn(depth + 1, NORMAL), ["lit"], "call"))
        if where == "field":
            fields.insert(self.rng.randrange(0, len(fields) + 1), mk("call", self.new_fn(depth + 1, want), ["lit"], "call"))
        name = self.fresh("C")
        fn = Fn(name, "class", self.rng.randrange(0, 3), self.rng.randrange(0, 3))
        fn.base, fn.fields = base, fields
        fn.where = where
        fn.body = [s for s in self.stmts(depth + 1, want if where == "body" else NORMAL, in_function=True) if s[0] != "return" or not base]
        self.new_defs.append(fn)
        return fn

    def new_rec(self):
        fn = Fn(self.fresh("r"), "rec", 1, self.rng.randrange(0, 3))
        self.nprobe += 1
        fn.probe_id = self.nprobe
        self.new_defs.append(fn)
        return fn

    def new_gen(self, depth):
        name = self.fresh("g")
        nseg = self.rng.randrange(1, 4)
        segs = []
        for i in range(nseg):
            want = NORMAL if i + 1 < nseg else self.rng.choice([NORMAL, NORMAL, THROW])
            segs.append(self.stmts(depth + 1, want, in_function=True, in_gen=True))
        fn = Fn(name, "gen", self.rng.randrange(0, 3), self.rng.randrange(0, 3), segments=segs)
        self.new_defs.append(fn)
        return fn

    def args(self, depth, n):
        out = []
        for _ in range(n):
            if depth < 3 and self.rng.random() < 0.25:
                out.append(self.call_stmt(depth + 1, NORMAL))
            else:
                out.append("lit")
        return out

    def call_stmt(self, depth, want):
        fn = self.new_fn(depth, want)
        argc = self.rng.randrange(0, 4)
        mode = "new" if (want != THROW or True) and self.rng.random() < 0.2 else "call"
        return mk("call", fn, self.args(depth, argc), mode)

    def failing_stmt(self, depth, want):
        """one statement whose execution ends with `want` (THROW or LIMIT), uncaught inside it"""
        r = self.rng.random()
        if want == LIMIT:
            if r < 0.45:
                return mk("recurse", self.new_rec())
            if r < 0.55:
                return mk("loop")
            if r < 0.62:
                return mk("finlimit")
            if depth < 3 and r < 0.72:
                return mk("call", self.new_class(depth, LIMIT), ["lit"] * self.rng.randrange(0, 3), "new")
            if depth < 4:
                if r < 0.8:
                    return self.call_stmt(depth, LIMIT)
                if r < 0.9:
                    return mk("apply", self.new_fn(depth, LIMIT), self.rng.randrange(0, 3))
                return mk("rconstruct", self.new_fn(depth, LIMIT), self.rng.randrange(0, 3))
            return mk("loop")
        # THROW
        if depth >= 4 or r < 0.25:
            return mk("throw")
        if depth < 3 and r < 0.35:
            c = self.new_class(depth, THROW)
            if self.rng.random() < 0.5:
                return mk("call", c, ["lit"] * self.rng.randrange(0, 3), "new")
            return mk("rconstruct", c, self.rng.randrange(0, 3))
        if r < 0.55:
            return self.call_stmt(depth, THROW)
        if r < 0.65:
            return mk("classcall", self.new_class(depth), self.rng.randrange(0, 3))
        if r < 0.8:
            return mk("apply", self.new_fn(depth, THROW), self.rng.randrange(0, 3))
        if r < 0.9:
            return mk("rconstruct", self.new_fn(depth, THROW), self.rng.randrange(0, 3))
        # a call with a throwing call in argument position (arguments stay on the stack)
        inner = self.call_stmt(depth + 1, THROW)
        outer = self.new_fn(depth, NORMAL)
        return mk("call", outer, ["lit", inner], "call")

    def ok_stmt(self, depth, in_function):
        r = self.rng.random()
        if depth >= 4 or r < 0.3:
            return self.probe()
        if r < 0.36 and depth < 3:
            return mk("call", self.new_class(depth), ["lit"] * self.rng.randrange(0, 3), "new")
        if r < 0.5:
            return self.call_stmt(depth, NORMAL)
        if r < 0.6:
            return mk("apply", self.new_fn(depth, NORMAL), self.rng.randrange(0, 3))
        if r < 0.68:
            f = self.new_class(depth) if self.rng.random() < 0.4 else self.new_fn(depth, NORMAL)
            return mk("rconstruct", f, self.rng.randrange(0, 3))
        if r < 0.9:
            # a caught failure: the callee's slots stay on the stack until this frame returns
            body = [self.ok_stmt(depth + 1, in_function) for _ in range(self.rng.randrange(0, 2))]
            body.append(self.failing_stmt(depth + 1, THROW))
            catch = [self.ok_stmt(depth + 1, in_function) for _ in range(self.rng.randrange(0, 3))]
            return mk("try", body, catch)
        if self.rich and r < 0.95:
            g = self.new_gen(depth)
            name = self.fresh("it")
            self.gen_names.append(name)
            return mk("gencreate", g, self.rng.randrange(0, 3), name)
        if self.rich and r < 0.975:
            return mk("promise", self.new_fn(depth, self.rng.choice([NORMAL, NORMAL, THROW])))
        if self.rich:
            return mk("promise_construct", self.new_class(depth, self.rng.choice([NORMAL, THROW, THROW])))
        return self.probe()

    def stmts(self, depth, want, in_function, in_gen=False):
        n = self.rng.randrange(0, 3 if depth > 1 else 4)
        out = [self.ok_stmt(depth, in_function) for _ in range(n)]
        if want in (THROW, LIMIT):
            out.append(self.failing_stmt(depth, want))
        elif in_function and not in_gen and self.rng.random() < 0.2:
            out.append(mk("return"))
        return out

    # --- entries ---------------------------------------------------------------------------------
    def script_text(self, defs, body):
        parts = [js_fn(f, None) for f in defs]
        parts.append(js_body(body, None))
        return " ".join(p for p in parts if p)

    def finish_defs(self):
        defs, self.new_defs = self.new_defs, []
        return defs

    def entry_eval(self, want):
        self.nmain += 1
        main = "main%d" % self.nmain
        body = self.stmts(1, want, in_function=False)
        if want == NORMAL and self.rng.random() < 0.25:
            self.new_rec()          # defined here, called later through the host (`call r 1`)
        defs = self.finish_defs()
        # layout of the script block
        mainfn = Fn(main, "fn", 0, 0, body)
        layout(mainfn)
        for f in defs:
            layout(f)
        acts, out = self.walk.body(body)
        text = self.script_text(defs, body)
        ract = "(eval R:%s %s 0 0 1 (%s))" % (main, self.walk.hs(mainfn), " ".join(acts))
        cat = {NORMAL: "ok", THROW: "throw", LIMIT: "limit"}[out]
        if out == THROW:
            cat = "throw-entry" if self.top_throw(body) else "throw-callee"
        e = Entry("eval " + esc(text), ract, out, "eval-" + cat, defs, main)
        if out == NORMAL:
            self.register(defs)
        return e

    def top_throw(self, body):
        """does the uncaught throw originate in the entry frame itself (no callee frame involved)?"""
        last = body[-1] if body else None
        return last is not None and last[0] in ("throw", "classcall")

    def register(self, defs):
        for f in defs:
            if f.kind == "fn":
                self.fns.append(f)
            elif f.kind == "class":
                self.classes.append(f)
            elif f.kind == "gen":
                self.genfns.append(f)
            elif f.kind == "rec":
                self.recs.append(f)

    def entry_module(self, want):
        """Module::parse + load_link_evaluate + run_jobs of a module without imports; its first statement is a probe
        from which the check derives the register count of the module's code block"""
        self.nmain += 1
        main = "mod%d" % self.nmain
        if self.walk.jobs:
            return None          # the op runs run_jobs itself: only with an empty job queue
        first = self.probe()
        # the module's code block cannot be dumped: its body only calls functions defined (and dumped) by earlier scripts
        body = [first]
        pool = [f for f in self.fns]
        for _ in range(self.rng.randrange(0, 4)):
            if pool and self.rng.random() < 0.6:
                fn = self.rng.choice(pool)
                body.append(mk("call", fn, ["lit"] * self.rng.randrange(0, 3), "call"))
            else:
                body.append(self.probe())
        if want == THROW:
            body.append(mk("throw"))
        elif want == LIMIT:
            body.append(mk(self.rng.choice(["loop", "finlimit"])))
        defs = []
        mainfn = Fn(main, "fn", 0, 0, body)
        layout(mainfn)
        for f in defs:
            layout(f)
        acts, out = self.walk.body(body)
        text = self.script_text([d for d in defs if d.kind != "class"], []) + " " + " ".join(
            "class %s { constructor(%s){ %s } }" % (d.name, ", ".join("p%d" % i for i in range(d.nparams)), js_body(d.body, None))
            for d in defs if d.kind == "class") + " " + js_body(body, None)
        ract = "(modlink R:%s) (eval R:%s %s 0 0 1 (%s))" % (main, main, self.walk.hs(mainfn), " ".join(acts))
        nracts = 2
        if self.walk.jobs:
            # functions called by the module body enqueued promise jobs: the op's own run_jobs runs them
            j = self.entry_jobs()
            ract += " " + j.ract
            nracts = 3
            if j.outcome == LIMIT:
                out = LIMIT
        cat = "module-" + {NORMAL: "ok", THROW: "throw", LIMIT: "limit"}[out]
        e = Entry("module " + esc(text), ract, out, cat, defs, None)
        e.module = main
        e.first_probe = first[1]["id"]
        e.nracts = nracts
        return e

    def entry_defclass(self, want):
        """a script that only defines a class whose construction fails in a field initialiser (or in its parent's)"""
        self.nmain += 1
        main = "main%d" % self.nmain
        where_rng = self.rng
        cls = None
        for _ in range(20):
            self.new_defs = []
            cls = self.new_class(2, want)
            if cls.where in ("field", "base"):
                break
        defs = self.finish_defs()
        for f in defs:
            layout(f)
        text = self.script_text(defs, [])
        e = Entry("eval " + esc(text), "(eval R:%s () 0 0 1 ())" % main, NORMAL, "eval-ok", defs, main)
        self.register(defs)
        return e, cls

    def entry_construct(self, cls, argc=0):
        ract, out = self.walk.host_call(cls, argc, True)
        cat = "construct-init-" + {NORMAL: "ok", THROW: "throw", LIMIT: "limit"}[out]
        return Entry("construct %s %d" % (cls.name, argc), ract, out, cat)

    def entry_decl_fail(self):
        self.nmain += 1
        main = "main%d" % self.nmain
        ract = "(eval R:%s () 0 0 0 ())" % main
        return Entry("eval function undefined(){}", ract, THROW, "eval-decl", [], main)

    def body_outcome(self, fn):
        """replay an already defined function (its behaviour is fixed by its code)"""
        return self.walk.host_call(fn, 0, False)

    def entry_call(self, construct):
        pool = list(self.fns) + (list(self.classes) if self.classes else [])
        if not pool:
            return None
        fn = self.rng.choice(pool)
        argc = self.rng.randrange(0, 4)
        ract, out = self.walk.host_call(fn, argc, construct)
        if fn.kind == "class" and not construct:
            cat = "call-class"
        elif fn.kind == "class" and out != NORMAL and getattr(fn, "where", None) in ("field", "base"):
            cat = "construct-init-" + {THROW: "throw", LIMIT: "limit"}[out]
        else:
            cat = ("construct-" if construct else "call-") + {NORMAL: "ok", THROW: "throw", LIMIT: "limit"}[out]
        return Entry("%s %s %d" % ("construct" if construct else "call", fn.name, argc), ract, out, cat)

    def entry_rec(self):
        if not self.recs:
            return None
        fn = self.rng.choice(self.recs)
        minframe = 4
        depth = min(self.rlimit + 3, self.slimit // minframe + 3)
        ract = "(hcall 1 R:%s () 0 0 (%s))" % (fn.name, rec_level(fn, rec_chain(fn, depth - 1)))
        return Entry("call %s 1" % fn.name, ract, LIMIT, "call-limit")

    def entry_gen(self):
        live = [g for g in self.walk.gens.values()]
        if not live:
            return None
        g = self.rng.choice(live)
        kind = self.rng.choice(["next", "next", "next", "return", "throw"])
        r, out = self.walk.resume(g, kind)
        ract = "(hcallnative 1 (%s (propagate 1)))" % r
        return Entry("meth %s %s 1" % (g.name, kind), ract, out, "gen-%s-%s" % (kind, {NORMAL: "ok", THROW: "throw", LIMIT: "limit"}[out]))

    def entry_jobs(self):
        jobs, self.walk.jobs = self.walk.jobs, []
        parts = []
        out_all = NORMAL
        queue = list(jobs)
        while queue:
            fn = queue.pop(0)
            before = len(self.walk.jobs)
            if isinstance(fn, tuple):
                # the callback is a bound Reflect.apply: builtins only, no bytecode frame around the [[Construct]]
                inner, out = self.walk.host_call(fn[1], 0, True)
                r = "(hcallnative 4 ((hcallnative 2 (%s (propagate 1))) (propagate 1)))" % inner
            else:
                r, out = self.walk.host_call(fn, 1, False)
            # jobs enqueued while this one ran go to the back of the queue
            queue += self.walk.jobs[before:]
            del self.walk.jobs[before:]
            parts.append(r)
            parts.append("(propagate 0)")
            if out == LIMIT:
                out_all = LIMIT
                break
            # resolve / reject function of the derived promise (a native called through JsObject::call)
            parts.append("(hcallnative 1 ())")
            parts.append("(propagate 1)")
        ract = "(block (%s))" % " ".join(parts)
        return Entry("jobs", ract, out_all, "jobs-" + ("limit" if out_all == LIMIT else "ok"))


def history(rng, n_entries, rlimit, slimit, looplimit, rich=True, fail_rate=0.45, burst=0):
    """returns (ops, entries): ops[0] creates the context; entries[i] belongs to ops[i+1].
    burst > 0: after a third of the history, one class whose field initialiser throws is constructed `burst` times in a
    row directly from the host (the context has to survive that many failed constructions)"""
    b = Builder(rng, rlimit, slimit, looplimit, rich)
    entries = []
    burst_at = n_entries // 3 if burst else -1
    while len(entries) < n_entries + (burst + 1 if burst else 0):
        if len(entries) == burst_at:
            e, cls = b.entry_defclass(THROW)
            entries.append(e)
            for _ in range(burst):
                entries.append(b.entry_construct(cls))
            burst_at = -1
            continue
        r = rng.random()
        e = None
        if r < 0.45 or not b.fns:
            fail = rng.random() < fail_rate
            want = NORMAL if not fail else rng.choice([THROW, THROW, LIMIT])
            e = b.entry_eval(want)
        elif r < 0.5:
            e = b.entry_decl_fail()
        elif r < 0.56 and rich:
            e = b.entry_module(NORMAL if rng.random() < 0.6 else rng.choice([THROW, LIMIT]))
        elif r < 0.66:
            e = b.entry_call(False)
        elif r < 0.75:
            e = b.entry_call(True)
        elif r < 0.8:
            e = b.entry_rec()
        elif r < 0.92 and rich:
            e = b.entry_gen()
        elif rich:
            e = b.entry_jobs()
        if e is not None:
            entries.append(e)
    ops = ["ctx 0 %d %d %d" % (rlimit, slimit, looplimit)] + [e.op for e in entries]
    return ops, entries
