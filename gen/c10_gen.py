"""C10 program generator: JavaScript texts that keep engine data structures *mid-operation* at allocation
points, so that a collection placed at any allocation meets closures in environments, suspended generators,
promise reaction lists, class-field initialisers, Map/Set iteration, bound functions, arguments objects,
template objects, iterator records, regexp state, proxies and compiler-made temporaries.

A program is a random nesting/sequence of *scenarios*.  Every scenario prints what it computes (so a lost or
corrupted object shows in the trace) and may embed other scenarios inside its callbacks.  Explicit `gc()` calls
(host function: collect now; a no-op in the baseline run) are sprinkled at random points, in addition to the
per-allocation stress schedule chosen by the check.

Weak observations are printed only through two line shapes: `W:<tag>:live|dead` (WeakRef.deref / WeakMap probe)
and `F:<held>` (FinalizationRegistry callback).  Tags starting with `S` belong to targets the program still
holds strongly when the observation is made, so they must always be `live` and must never be finalised; tags
starting with `D` belong to targets that were dropped.  The check compares everything else byte for byte.
"""
import random


class G:
    def __init__(self, rng, size):
        self.r = rng
        self.n = 0
        self.budget = size
        self.feat = {}

    def id(self, p="v"):
        self.n += 1
        return "%s%d" % (p, self.n)

    def use(self, name):
        self.feat[name] = self.feat.get(name, 0) + 1

    def maybe_gc(self, p=0.35):
        return "gc(); " if self.r.random() < p else ""

    def lit(self):
        r = self.r
        k = r.randrange(8)
        if k == 0:
            return str(r.randrange(-5, 100))
        if k == 1:
            return repr(r.choice([0.5, 1.25, -0.0, 1e21, 3.14, 2 ** 31, 2 ** 53]))
        if k == 2:
            return '"%s"' % "".join(r.choice("abcxyz\u00e9\u03c0") for _ in range(r.randrange(0, 12)))
        if k == 3:
            return "{a: %d, b: [%d, {c: \"%s\"}]}" % (r.randrange(9), r.randrange(9), r.choice("pqr"))
        if k == 4:
            return "[%s]" % ", ".join(str(r.randrange(50)) for _ in range(r.randrange(0, 6)))
        if k == 5:
            return "%dn" % r.randrange(10 ** 20, 10 ** 21)
        if k == 6:
            return "Symbol(\"s%d\")" % r.randrange(9)
        return "(() => %d)" % r.randrange(9)

    # every scenario returns a statement list (string); `inner()` embeds a nested scenario body
    def inner(self, depth):
        if depth <= 0 or self.budget <= 0 or self.r.random() < 0.45:
            return self.maybe_gc(0.5) + "print(\"leaf\", show(%s));" % self.lit()
        return self.scenario(depth - 1)

    def scenario(self, depth):
        self.budget -= 1
        fs = [self.sc_closures, self.sc_generator, self.sc_promise, self.sc_class, self.sc_mapset, self.sc_bound_args,
              self.sc_template, self.sc_array_cb, self.sc_strings, self.sc_json, self.sc_proxy, self.sc_destructure,
              self.sc_typed, self.sc_errors, self.sc_accessors, self.sc_weak, self.sc_eval, self.sc_async_gen,
              self.sc_regexp, self.sc_with, self.sc_spread_call, self.sc_sort, self.sc_symbol_keys, self.sc_label_loops,
              self.sc_weak_nested, self.sc_weak_nested]
        f = self.r.choice(fs)
        self.use(f.__name__[3:])
        return "{ " + f(depth) + " }"

    def seq(self, depth, k=None):
        k = k or self.r.randrange(1, 4)
        return " ".join(self.scenario(depth) for _ in range(k))

    def sc_closures(self, d):
        a, f, i = self.id("cl"), self.id("f"), self.id("i")
        n = self.r.randrange(2, 7)
        return ("let %(a)s = []; for (let %(i)s = 0; %(i)s < %(n)d; %(i)s++) { let box = {k: %(i)s, s: \"c\" + %(i)s}; %(g)s"
                "%(a)s.push(function %(f)s(x = () => box.k) { var y = [box, x]; return () => y[0].s + y[1]() + %(i)s; }); } %(g2)s"
                "print(\"closures\", %(a)s.map(h => h()()).join(\"|\")); %(inner)s print(%(a)s[%(a)s.length - 1](() => 7)());"
                ) % dict(a=a, f=f, i=i, n=n, g=self.maybe_gc(), g2=self.maybe_gc(), inner=self.inner(d))

    def sc_generator(self, d):
        g, it = self.id("gen"), self.id("it")
        return ("function* %(g)s(o) { let held = {tag: \"h\", o}; try { let x = yield [held, {n: 1}]; %(g1)s"
                "print(\"gen-resumed\", show(x)); try { yield* [ {n: 2}, {n: 3} ]; } finally { print(\"gen-inner-fin\", held.tag); %(inner)s } "
                "yield held.o; } finally { print(\"gen-fin\", show(held.o)); } } "
                "let %(it)s = %(g)s(%(lit)s); print(show(%(it)s.next().value[1])); %(g2)s print(show(%(it)s.next({r: [1, 2]}).value)); %(g3)s"
                "%(end)s"
                ) % dict(g=g, it=it, lit=self.lit(), g1=self.maybe_gc(), g2=self.maybe_gc(0.6), g3=self.maybe_gc(0.6), inner=self.inner(d),
                         end=self.r.choice(["print(show(%s.return({q: 9}).value));" % it,
                                            "try { %s.throw(new RangeError(\"boom\")); } catch (e) { print(\"caught\", e.name); }" % it,
                                            "for (const v of %s) print(\"rest\", show(v));" % it,
                                            "/* left suspended */"]))

    def sc_promise(self, d):
        p, k = self.id("p"), self.r.randrange(1, 5)
        chain = "".join(".then(v => { %s return {v, k: %d, arr: [v]}; })" % (self.maybe_gc(), j) for j in range(k))
        return ("let %(p)s = Promise.resolve({start: %(lit)s})%(chain)s; %(p)s.then(v => { print(\"promise\", show(v)); %(inner)s }); "
                "Promise.all([%(p)s, new Promise(res => { let big = new Array(20).fill({z: 1}); res(big.length); }), "
                "{then(r) { %(g)s r({thenable: [1]}); }}]).then(a => print(\"all\", show(a[1]), show(a[2]))); "
                "(async function () { let local = {w: \"await\"}; let got = await %(p)s; %(g2)s print(\"async\", local.w, show(got.k)); "
                "try { await Promise.reject(new TypeError(\"rej\")); } catch (e) { print(\"async-caught\", e.message, local.w); } })();"
                ) % dict(p=p, lit=self.lit(), chain=chain, inner=self.inner(d), g=self.maybe_gc(), g2=self.maybe_gc())

    def sc_class(self, d):
        c, b = self.id("C"), self.id("B")
        return ("class %(b)s { base = [%(lit)s, {}]; static sb = new Map([[1, {m: 1}]]); constructor(x) { this.x = {x}; %(g)s } get g() { return [this.x, this.base.length]; } "
                "static make(n) { return Array.from({length: n}, (_, i) => new this(i)); } } "
                "class %(c)s extends %(b)s { #priv = {p: [1, 2, 3]}; f1 = (() => { %(g1)s return {init: this.x}; })(); static { this.blk = [new %(b)s(\"s\")]; } "
                "constructor(x) { super(x); this.late = () => this.#priv.p.concat(this.f1.init.x); } toString() { return \"C(\" + show(this.late()) + \")\"; } } "
                "print(\"class\", String(new %(c)s(5)), show(%(c)s.make(3).map(o => o.g[1])), %(c)s.blk.length, %(b)s.sb.get(1).m); %(inner)s"
                ) % dict(c=c, b=b, lit=self.lit(), g=self.maybe_gc(0.2), g1=self.maybe_gc(), inner=self.inner(d))

    def sc_mapset(self, d):
        m, s = self.id("m"), self.id("s")
        n = self.r.randrange(3, 9)
        return ("let %(m)s = new Map(), %(s)s = new Set(); for (let i = 0; i < %(n)d; i++) { %(m)s.set({key: i}, [i, {v: i * 2}]); %(m)s.set(\"k\" + i, i); %(s)s.add([i]); } "
                "let out = []; %(m)s.forEach((v, k, mm) => { %(g)s if (typeof k === \"object\" && k.key %% 2 && k.key < 100) { mm.delete(k); mm.set({key: k.key + 100}, [k.key]); } out.push(show(v)); }); "
                "print(\"map\", out.join(\";\"), %(m)s.size); let it = %(s)s.values(); it.next(); %(g1)s %(s)s.delete([...%(s)s][1]); %(s)s.add({late: 1}); "
                "print(\"set\", [...it].map(show).join(\";\")); %(inner)s print(\"map-keys\", [...%(m)s.keys()].map(show).join(\",\"));"
                ) % dict(m=m, s=s, n=n, g=self.maybe_gc(0.25), g1=self.maybe_gc(), inner=self.inner(d))

    def sc_bound_args(self, d):
        f = self.id("fn")
        return ("function %(f)s(a, b) { arguments[0] = {re: a}; %(g)s let args = arguments; return function () { return [a, args.length, args[1], this && this.t]; }; } "
                "let bound = %(f)s.bind({t: \"this\"}, {first: 1}); let h = bound([2, 3], \"extra\"); %(g1)s print(\"bound\", show(h.call({t: \"inner\"}))); "
                "let bb = h.bind({t: {deep: [1]}}).bind(null); print(\"bound2\", show(bb())); %(inner)s "
                "print(\"apply\", show(%(f)s.apply(null, Array.from({length: 5}, (_, i) => ({i})))()));"
                ) % dict(f=f, g=self.maybe_gc(), g1=self.maybe_gc(), inner=self.inner(d))

    def sc_template(self, d):
        t = self.id("tag")
        return ("let seen = []; function %(t)s(strs, ...vals) { %(g)s seen.push(strs); return strs.raw.join(\"|\") + vals.map(show).join(\",\"); } "
                "function site(x) { return %(t)s`a${x}b${{o: x}}c\\n`; } print(\"tpl\", site(1), site([2])); %(g1)s print(\"tpl-same\", seen[0] === seen[1], Object.isFrozen(seen[0])); "
                "%(inner)s print(\"tpl2\", `x${{toString() { %(g2)s return \"ts\"; }}}y${[1, [2]]}`);"
                ) % dict(t=t, g=self.maybe_gc(), g1=self.maybe_gc(), g2=self.maybe_gc(), inner=self.inner(d))

    def sc_array_cb(self, d):
        a = self.id("arr")
        n = self.r.randrange(3, 12)
        return ("let %(a)s = Array.from({length: %(n)d}, (_, i) => ({i, s: \"e\" + i})); "
                "let r1 = %(a)s.map(o => { %(g)s return [o, o.s + o.i]; }).filter(p => p[0].i %% 3 !== 1).reduce((acc, p) => { acc[p[1]] = {p}; return acc; }, {}); "
                "print(\"arr\", Object.keys(r1).join(\",\")); print(\"flat\", show(%(a)s.flatMap(o => [o.i, [o.s]]).slice(0, 6))); %(g1)s "
                "%(a)s.length = %(k)d; %(a)s[%(big)d] = {far: 1}; %(a)s.splice(1, 1, {sp: 1}, {sp: 2}); print(\"arr2\", show(%(a)s.map(o => o && (o.i ?? o.sp ?? \"far\")))); %(inner)s "
                "print(\"concat\", show([].concat(%(a)s.slice(0, 2), [[1]], {length: 1, 0: \"al\", [Symbol.isConcatSpreadable]: true})));"
                ) % dict(a=a, n=n, k=max(1, n // 2), big=n + self.r.choice([1, 5, 2000]), g=self.maybe_gc(0.2), g1=self.maybe_gc(), inner=self.inner(d))

    def sc_strings(self, d):
        s = self.id("str")
        n = self.r.randrange(2, 30)
        return ("let %(s)s = \"\"; for (let i = 0; i < %(n)d; i++) { %(s)s += String.fromCharCode(97 + i %% 26) + (i %% 7 ? \"\" : \"\\u03c0\"); %(g)s } "
                "let parts = %(s)s.split(\"\").map((c, i) => c.repeat(i %% 3 + 1)); %(g1)s let joined = parts.join(\"-\"); "
                "print(\"str\", joined.length, joined.slice(3, 17), %(s)s.toUpperCase().slice(-5), joined.substring(2).padStart(5, \"*\").at(-1)); "
                "let obj = {}; for (const p of parts.slice(0, 5)) obj[p + \"_k\"] = p.length; %(inner)s print(\"str-keys\", Object.keys(obj).join(), %(s)s.localeCompare ? \"lc\" : \"\", (\"x\" + %(s)s).normalize(\"NFD\").length);"
                ) % dict(s=s, n=n, g=self.maybe_gc(0.15), g1=self.maybe_gc(), inner=self.inner(d))

    def sc_json(self, d):
        return ("let txt = JSON.stringify({a: [1, {b: \"x\"}, [null]], c: {d: {e: [true]}}, big: \"%(pad)s\"}, (k, v) => { %(g)s return k !== \"n\" && typeof v === \"number\" ? {n: v} : v; }, 1); "
                "print(\"json\", txt.length); let back = JSON.parse(txt, function (k, v) { %(g1)s if (Array.isArray(v)) v.push({added: k}); return v; }); "
                "print(\"json2\", show(back.a), show(back.c)); %(inner)s print(\"json3\", JSON.stringify({toJSON() { %(g2)s return [new Map(), {t: 1}]; }}));"
                ) % dict(pad="p" * self.r.randrange(0, 40), g=self.maybe_gc(0.15), g1=self.maybe_gc(0.15), g2=self.maybe_gc(), inner=self.inner(d))

    def sc_proxy(self, d):
        p = self.id("px")
        return ("let log = []; let target = {t: [1], u: {v: 2}}; let %(p)s = new Proxy(target, { get(t, k, r) { %(g)s log.push(String(k)); return typeof k === \"string\" && k in t ? [t[k]] : undefined; }, "
                "ownKeys(t) { return Reflect.ownKeys(t).concat([\"extra\"]); }, getOwnPropertyDescriptor(t, k) { %(g1)s return k === \"extra\" ? {value: {e: 1}, configurable: true, enumerable: true} : Reflect.getOwnPropertyDescriptor(t, k); }, "
                "has(t, k) { return k !== \"hidden\"; } }); print(\"proxy\", show(%(p)s.t), show(%(p)s.nope), Object.keys(%(p)s).join(), \"hidden\" in %(p)s); %(inner)s "
                "print(\"proxy2\", show({...%(p)s}), log.length); let rv = Proxy.revocable({}, {}); rv.revoke(); try { rv.proxy.x; } catch (e) { print(\"revoked\", e.name); }"
                ) % dict(p=p, g=self.maybe_gc(0.2), g1=self.maybe_gc(0.2), inner=self.inner(d))

    def sc_destructure(self, d):
        it = self.id("iter")
        return ("let closed = []; let %(it)s = { [Symbol.iterator]() { let i = 0; return { next() { %(g)s i++; return {done: i > 5, value: {i, arr: [i]}}; }, return(v) { closed.push(i); return {}; } }; } }; "
                "let [a, {i: b}, , ...rest] = %(it)s; let [c] = %(it)s; let {x: xx = {}, ...others} = {p: {q: 1}, r: [2], x: {}}; let {y = [%(lit)s]} = xx; %(g1)s "
                "print(\"destr\", show(a), b, rest.length, show(c), show(y), show(others), closed.join()); %(inner)s "
                "function dp({k = {def: 1}, ...o} = {}, [h = [], ...t] = %(it)s) { return [k, o, h, t.length]; } print(\"destr2\", show(dp({z: 1})), show(dp()));"
                ) % dict(it=it, lit=self.lit(), g=self.maybe_gc(0.15), g1=self.maybe_gc(), inner=self.inner(d))

    def sc_typed(self, d):
        n = self.r.randrange(1, 40)
        return ("let buf = new ArrayBuffer(%(n)d * 8); let f64 = new Float64Array(buf), u8 = new Uint8Array(buf, 4, %(n)d), dv = new DataView(buf); %(g)s "
                "for (let i = 0; i < f64.length; i++) f64[i] = i / 3; dv.setInt16(1, -2, true); let sub = f64.subarray(1).map(x => x * 2); %(g1)s "
                "print(\"typed\", show(Array.from(u8.slice(0, 6))), show(Array.from(sub.slice(0, 3))), dv.getFloat32(0), buf.slice(2, 10).byteLength); %(inner)s "
                "let big = new BigInt64Array(3); big[1] = -5n; print(\"typed2\", show(Array.from(big)), Object.prototype.toString.call(new Uint8ClampedArray([300, -1])[0]));"
                ) % dict(n=n, g=self.maybe_gc(), g1=self.maybe_gc(), inner=self.inner(d))

    def sc_errors(self, d):
        return ("function thrower(n) { let ctx = {n, pad: new Array(n + 1).join(\"e\")}; if (n <= 0) { %(g)s throw new RangeError(\"deep \" + ctx.pad, {cause: ctx}); } try { return thrower(n - 1); } finally { ctx.done = true; %(g1)s } } "
                "try { thrower(%(n)d); } catch (e) { print(\"err\", e.name, e.message, show(e.cause), e instanceof RangeError); %(inner)s } "
                "try { null.x; } catch ({message}) { print(\"err2\", typeof message); } try { (void 0)(); } catch (e) { print(\"err3\", e.constructor === TypeError, Object.prototype.toString.call(e)); } "
                "let agg = new AggregateError([new Error(\"a\"), {o: 1}], \"agg\"); print(\"err4\", agg.errors.length, show(agg.errors[1]));"
                ) % dict(n=self.r.randrange(0, 12), g=self.maybe_gc(), g1=self.maybe_gc(0.1), inner=self.inner(d))

    def sc_accessors(self, d):
        o = self.id("acc")
        return ("let store = {val: [%(lit)s]}; let %(o)s = Object.create({inherited: {p: 1}}, { a: { get() { %(g)s return [store.val, this.b]; }, set(v) { store.val = {set: v}; }, enumerable: true, configurable: true }, b: { value: {bb: 2}, writable: true } }); "
                "print(\"acc\", show(%(o)s.a)); %(o)s.a = [9, {n: 9}]; %(g1)s Object.defineProperty(%(o)s, \"a\", {value: {now: \"data\"}}); print(\"acc2\", show(%(o)s.a), show(store.val), show(%(o)s.inherited)); "
                "let e = Object.entries({x: {y: 1}, z: [2]}).map(([k, v]) => [k + k, {v}]); %(inner)s print(\"acc3\", show(Object.fromEntries(e)), show(Object.getOwnPropertyDescriptors(Object.freeze({f: [1]}))));"
                ) % dict(o=o, lit=self.lit(), g=self.maybe_gc(), g1=self.maybe_gc(), inner=self.inner(d))

    def sc_weak(self, d):
        t = self.id("")
        n = self.r.randrange(1, 5)
        return ("let keepS%(t)s = []; let refs%(t)s = []; let wm%(t)s = new WeakMap(), ws%(t)s = new WeakSet(); let fr%(t)s = new FinalizationRegistry(h => print(\"F:\" + h)); "
                "(function () { for (let i = 0; i < %(n)d; i++) { let s = {strong: i}, dd = {dropped: i}; keepS%(t)s.push(s); refs%(t)s.push([\"S%(t)s_\" + i, new WeakRef(s)], [\"D%(t)s_\" + i, new WeakRef(dd)]); "
                "wm%(t)s.set(s, {payload: [i]}); wm%(t)s.set(dd, {payload: s}); ws%(t)s.add(dd); fr%(t)s.register(s, \"S%(t)s_h\" + i); fr%(t)s.register(dd, \"D%(t)s_h\" + i); } })(); %(g)s "
                "Promise.resolve().then(() => { %(g1)s for (const [tag, w] of refs%(t)s) print(\"W:\" + tag + \":\" + (w.deref() === undefined ? \"dead\" : \"live\")); "
                "print(\"weak\", keepS%(t)s.map(s => show(wm%(t)s.get(s))).join(), keepS%(t)s.every(s => !ws%(t)s.has(s))); }); %(inner)s"
                ) % dict(t=t, n=n, g=self.maybe_gc(0.7), g1=self.maybe_gc(0.7), inner=self.inner(d))

    def sc_eval(self, d):
        return ("var ev = {outer: [1, 2]}; %(g)s let r = eval(\"var made = {by: 'eval', ev}; let tmp = [made, () => made.by]; tmp[1]() + tmp.length\"); print(\"eval\", r, show(made)); "
                "let F = new Function(\"a\", \"b = {d: 1}\", \"return [a, b, arguments.length, (function(){ return this; })() === undefined];\"); %(g1)s print(\"Function\", show(F({x: 1}))); %(inner)s "
                "print(\"indirect\", (0, eval)(\"typeof ev\"), eval(\"(function(){ 'use strict'; return [this]; })()\").length);"
                ) % dict(g=self.maybe_gc(), g1=self.maybe_gc(), inner=self.inner(d))

    def sc_async_gen(self, d):
        g = self.id("ag")
        return ("async function* %(g)s(n) { let held = {ag: n}; try { for (let i = 0; i < n; i++) { %(g1)s let v = await {then(r) { r([held, i]); }}; yield {v, i}; } } finally { print(\"ag-fin\", held.ag); } } "
                "(async () => { let acc = []; for await (const x of %(g)s(%(n)d)) { acc.push(x.v[1]); if (x.i === 2) break; } %(g2)s print(\"asyncgen\", acc.join()); %(inner)s })(); "
                "let it = %(g)s(2); it.next().then(r => print(\"ag-next\", show(r.value.i))); it.return({ret: 1}).then(r => print(\"ag-ret\", show(r)));"
                ) % dict(g=g, n=self.r.randrange(1, 6), g1=self.maybe_gc(0.2), g2=self.maybe_gc(), inner=self.inner(d))

    def sc_regexp(self, d):
        return ("let re = /(?<w>[a-c]+)(\\d)?/g; let text = \"abc1 zz cab bca2 \" + \"ab\".repeat(%(n)d); %(g)s "
                "let ms = [...text.matchAll(re)].map(m => [m.index, m.groups.w, m[2]]); print(\"re\", show(ms.slice(0, 4)), ms.length); "
                "print(\"re2\", text.replace(re, (m0, w, dgt, off, str, grp) => { %(g1)s return \"<\" + grp.w.length + (dgt || \"\") + \">\"; }).slice(0, 30)); %(inner)s "
                "re.lastIndex = 0; let e1 = re.exec(text), e2 = re.exec(text); print(\"re3\", show(e1 && e1.slice()), re.lastIndex, show(\"a,b;c\".split(/[,;]/)), /\\u{1F600}/u.test(\"x\\u{1F600}\"));"
                ) % dict(n=self.r.randrange(0, 10), g=self.maybe_gc(), g1=self.maybe_gc(0.2), inner=self.inner(d))

    def sc_with(self, d):
        return ("var wobj = {wa: [1], wb: {c: 2}, [Symbol.unscopables]: {hid: true}, hid: \"no\"}; var hid = \"outer\"; var fns = []; "
                "with (wobj) { %(g)s var inW = {from: wa}; fns.push(() => [wa, wb.c, hid, inW]); wa = [wa, {re: 1}]; } %(g1)s print(\"with\", show(fns[0]()), show(wobj.wa)); %(inner)s"
                ) % dict(g=self.maybe_gc(), g1=self.maybe_gc(), inner=self.inner(d))

    def sc_spread_call(self, d):
        return ("function sp(...r) { %(g)s return {n: r.length, last: r[r.length - 1], first: r[0]}; } function* lazy() { for (let i = 0; i < %(n)d; i++) { %(g1)s yield {i}; } } "
                "print(\"spread\", show(sp(...lazy(), ...[{a: 1}], ...\"str\", ...new Set([[1]])))); print(\"spread2\", show(new (class K { constructor(...a) { this.a = a; } })(...lazy()).a.length), show(Math.max(...[1, 5, 3], ...lazy().map ? [] : [])), show([...lazy()].at(-1))); "
                "%(inner)s print(\"spread3\", show({...{x: {y: 1}}, ...[7, 8], ...\"hi\", ...null}));"
                ) % dict(n=self.r.randrange(0, 8), g=self.maybe_gc(), g1=self.maybe_gc(0.15), inner=self.inner(d))

    def sc_sort(self, d):
        n = self.r.randrange(2, 25)
        vals = [self.r.randrange(0, 40) for _ in range(n)]
        return ("let items = %(vals)s.map((v, i) => ({v, i, tagobj: {t: \"t\" + i}})); %(g)s items.sort((p, q) => { let tmp = [p, q, {cmp: 1}]; %(g1)s return tmp[0].v - tmp[1].v || tmp[0].i - tmp[1].i; }); "
                "print(\"sort\", items.map(o => o.v + \":\" + o.tagobj.t).join()); %(inner)s print(\"sort2\", show(items.map(o => String(o.v)).sort().slice(0, 5)), show(items.toSorted ? items.toSorted((a, b) => b.i - a.i)[0].i : %(last)d));"
                ) % dict(vals=repr(vals), g=self.maybe_gc(), g1=self.maybe_gc(0.05), inner=self.inner(d), last=n - 1)

    def sc_symbol_keys(self, d):
        return ("let sy = Symbol(\"own\"), reg = Symbol.for(\"reg%(k)d\"); let so = {[sy]: {s: 1}, [reg]: [2], plain: {}, 10: \"ten\", 2: \"two\"}; %(g)s so[Symbol.for(\"reg%(k)d\")].push({again: 1}); "
                "print(\"sym\", show(Reflect.ownKeys(so).map(String)), show(so[sy]), show(so[reg]), Symbol.keyFor(reg), sy.description); %(inner)s "
                "let wk = {[Symbol.toPrimitive](hint) { %(g1)s return hint === \"number\" ? 42 : \"prim-\" + hint; }}; print(\"sym2\", +wk, `${wk}`, wk + \"\", show(Object.getOwnPropertySymbols(wk).length));"
                ) % dict(k=self.r.randrange(5), g=self.maybe_gc(), g1=self.maybe_gc(), inner=self.inner(d))

    def sc_label_loops(self, d):
        return ("let acc = []; outer: for (const k in {a: {x: 1}, b: [2], c: \"s\"}) { let cap = {k}; for (const [i, v] of [[1, {}], [2, []], [3, \"z\"]].entries()) { %(g)s "
                "try { if (v[0] === 2) continue outer; if (k === \"c\") break outer; acc.push(() => [cap.k, i, v[1]]); } finally { acc.push(() => \"f\" + k + i); %(g1)s } } } "
                "print(\"loops\", acc.map(f => show(f())).join(\" \")); %(inner)s let sw = []; for (let i = 0; i < 4; i++) { switch (i) { case 1: { let o = {one: i}; sw.push(() => o); } case 2: sw.push(() => i); break; default: sw.push(() => ({d: i})); } } print(\"switch\", sw.map(f => show(f())).join());"
                ) % dict(g=self.maybe_gc(0.1), g1=self.maybe_gc(0.1), inner=self.inner(d))

    def sc_weak_nested(self, d):
        """weak cells that are themselves reachable only through the *value* of another weak-map entry (allocated before or
        after the outer entry, one or two levels deep); every target and key stays strongly held, so all must stay live"""
        t = self.id("")
        order = self.r.choice(["inner-first", "outer-first"])
        lvl2 = self.r.random() < 0.5
        mk_inner = ("let ref = new WeakRef(tgt%(t)s); let innerMap = new WeakMap(); innerMap.set(ikey%(t)s, {iv: [1], ref2: new WeakRef(ikey%(t)s)}); "
                    "let innerSet = new WeakSet([tgt%(t)s]); ") % dict(t=t)
        if order == "inner-first":
            body = mk_inner + "%(g)s reg%(t)s.set(okey%(t)s, {ref, innerMap, innerSet});"
        else:
            body = "let holder = {}; reg%(t)s.set(okey%(t)s, holder); %(g)s " + mk_inner + "holder.ref = ref; holder.innerMap = innerMap; holder.innerSet = innerSet;"
        if lvl2:
            body += " let deep = new WeakMap(); deep.set(okey%(t)s, reg%(t)s.get(okey%(t)s)); reg%(t)s.set(tgt%(t)s, {deep});"
        body = body % dict(t=t, g=self.maybe_gc(0.6))
        probe = ("let h = reg%(t)s.get(okey%(t)s); print(\"W:S%(t)s_nref:\" + (h && h.ref.deref() === tgt%(t)s ? \"live\" : \"dead\")); "
                 "print(\"W:S%(t)s_nmap:\" + (h && h.innerMap.has(ikey%(t)s) && h.innerMap.get(ikey%(t)s).ref2.deref() === ikey%(t)s ? \"live\" : \"dead\")); "
                 "print(\"W:S%(t)s_nset:\" + (h && h.innerSet.has(tgt%(t)s) ? \"live\" : \"dead\")); ") % dict(t=t)
        if lvl2:
            probe += ("let dd = reg%(t)s.get(tgt%(t)s); print(\"W:S%(t)s_deep:\" + (dd && dd.deep.get(okey%(t)s) === h ? \"live\" : \"dead\")); ") % dict(t=t)
        return ("let reg%(t)s = new WeakMap(); let tgt%(t)s = {name: \"target\"}, okey%(t)s = {name: \"okey\"}, ikey%(t)s = {name: \"ikey\"}; "
                "(function () { %(body)s })(); %(g1)s let junk = []; for (let i = 0; i < %(n)d; i++) junk.push({i, a: [i]}); junk = null; %(g2)s "
                "%(probe)s Promise.resolve().then(() => { %(g3)s %(probe2)s }); %(inner)s"
                ) % dict(t=t, body=body, g1=self.maybe_gc(0.8), g2=self.maybe_gc(0.8), g3=self.maybe_gc(0.8), n=self.r.randrange(1, 60),
                         probe=probe, probe2=probe.replace("let h =", "let h2 =").replace("h &&", "h2 &&").replace("=== h ", "=== h2 ").replace("let dd", "let dd2").replace("dd &&", "dd2 &&").replace("dd.deep", "dd2.deep"),
                         inner=self.inner(d))


PRELUDE = (
    "function show(v) { var seen = []; function go(x, dep) { "
    "if (x === null) return \"null\"; var t = typeof x; "
    "if (t === \"string\") return JSON.stringify(x); if (t === \"bigint\") return x + \"n\"; if (t === \"symbol\") return x.toString(); "
    "if (t === \"function\") return \"fn\"; if (t === \"number\") return Object.is(x, -0) ? \"-0\" : String(x); if (t !== \"object\") return String(x); "
    "if (seen.indexOf(x) >= 0 || dep > 6) return \"#\"; seen.push(x); var r; "
    "if (Array.isArray(x)) { r = []; for (var i = 0; i < x.length; i++) r.push(i in x ? go(x[i], dep + 1) : \"<hole>\"); r = \"[\" + r.join(\",\") + \"]\"; } "
    "else if (x instanceof Map) r = \"Map(\" + x.size + \")\"; else if (x instanceof Set) r = \"Set(\" + x.size + \")\"; "
    "else if (x instanceof Error) r = x.name + \"(\" + x.message + \")\"; "
    "else { r = []; var ks = Object.keys(x); for (var j = 0; j < ks.length; j++) r.push(ks[j] + \":\" + go(x[ks[j]], dep + 1)); r = \"{\" + r.join(\",\") + \"}\"; } "
    "seen.pop(); return r; } return go(v, 0); }\n"
)


def gen_fr_throw_program(rng):
    """A stand-alone program whose only jobs are FinalizationRegistry clean-up jobs, some of whose callbacks THROW
    (message prefix FRCB): every registration must still be reported at most once, whatever the callback does, and
    registrations of strongly held targets never.  No promise jobs are pending when the clean-up runs (a throwing job
    makes boa's executor drop the rest of the queue, which is documented behaviour and not what is tested here)."""
    n = rng.randrange(2, 7)
    thrower = rng.randrange(0, n)
    mode = rng.choice(["throw-always", "throw-once", "throw-first-call", "unregister-then-throw"])
    lines = [PRELUDE,
             "var keep = []; var calls = 0; var thrown = {};",
             "var wave2 = [{w: 1}, {w: 2}, {w: 3}];",
             "var fr = new FinalizationRegistry(function (h) { calls++; print(\"F:\" + h); wave2 = null;"]
    if mode == "throw-always":
        lines.append("  if (h === \"D_h%d\") throw new Error(\"FRCB always \" + h);" % thrower)
    elif mode == "throw-once":
        lines.append("  if (h === \"D_h%d\" && !thrown[h]) { thrown[h] = 1; throw new Error(\"FRCB once \" + h); }" % thrower)
    elif mode == "throw-first-call":
        lines.append("  if (calls === 1) throw new Error(\"FRCB first \" + h);")
    else:
        lines.append("  if (h === \"D_h%d\") { fr.unregister(tok); throw new Error(\"FRCB unreg \" + h); }" % thrower)
    lines.append("});")
    lines.append("var tok = {};")
    lines.append("(function () { for (var i = 0; i < %d; i++) { var s = {s: i}, d = {d: i}; keep.push(s); fr.register(s, \"S_h\" + i); fr.register(d, \"D_h\" + i, i %% 2 ? tok : undefined); } })();" % n)
    # two waves of garbage so that a second clean-up pass has something to report
    lines.append("(function () { var late = {late: 1}; fr.register(late, \"D_late\"); })();")
    # a second wave of registered targets that stays alive until the first clean-up callback has run (it drops them):
    # the next collection then reclaims them, which starts a SECOND clean-up pass over the registry
    lines.append("wave2.forEach(function (o, i) { fr.register(o, \"D_w\" + i); });")
    lines.append("gc(); var junk = []; for (var j = 0; j < %d; j++) junk.push({j: j}); junk = null; gc();" % rng.randrange(5, 80))
    lines.append("print(\"frthrow\", keep.length);")
    lines.append("print(\"end\");")
    return "\n".join(lines) + "\n", {"fr_throw_" + mode: 1}


def gen_program(rng, size=6, depth=3):
    """Returns (javascript text, feature histogram)."""
    g = G(rng, size)
    body = g.seq(depth, k=rng.randrange(1, 4))
    return PRELUDE + body + "\nprint(\"end\");\n", g.feat


if __name__ == "__main__":
    import sys
    r = random.Random(int(sys.argv[1]) if len(sys.argv) > 1 else 1)
    print(gen_program(r)[0])
