"""C16 program generator: programs of the promise DSL of coq/C16/Promise.v.

One AST, two printers: `to_js` (JavaScript for boa / node) and `to_coq` (a Gallina `prog` term).
All randomness comes from the `random.Random` handed in (run.rng).

AST (tuples):
  expr: ('undef',) ('num',n) ('var',x) ('arg',i) ('fun',f) ('thenable',f) ('getter',f) ('obj',)
        ('resolve',e) ('reject',e) ('new',f) ('then',p,f,r) ('catch',p,r) ('finally',p,f)
        ('comb',kind,[e]) ('call',f,a)
  stmt: ('print',l,e) ('let',x,e) ('expr',e) ('return',e) ('throw',e) ('await',x,e)
        ('try',[stmt],x,[stmt]) ('hang',)
  program: {'funs': [{'async': bool, 'body': [stmt]}], 'main': [stmt], 'nvars': int, 'hang': bool, 'features': set}
"""

PRELUDE = (
    'function show(v){ if (v === undefined) return "undefined"; if (typeof v === "number") return String(v); '
    'if (typeof v === "function") return "F"; if (v instanceof Promise) return "P"; '
    'if (Array.isArray(v)) return "[" + v.map(show).join(",") + "]"; '
    'if (v instanceof Error) return v.name + (v.errors ? show(v.errors) : ""); '
    'if (Object.prototype.hasOwnProperty.call(v, "status")) return v.status + ":" + show(v.status === "fulfilled" ? v.value : v.reason); '
    'return v.k; }\n')

COMB_JS = {'all': 'all', 'race': 'race', 'allSettled': 'allSettled', 'any': 'any'}
COMB_COQ = {'all': 'KAll', 'race': 'KRace', 'allSettled': 'KAllSettled', 'any': 'KAny'}


# ------------------------------------------------------------------------------------------------
# printers

def e_js(e):
    t = e[0]
    if t == 'undef':
        return 'undefined'
    if t == 'num':
        return str(e[1])
    if t == 'var':
        return 'v%d' % e[1]
    if t == 'arg':
        return 'ab'[e[1]]
    if t == 'fun':
        return 'f%d' % e[1]
    if t == 'thenable':
        return '({k:"T", then: f%d})' % e[1]
    if t == 'getter':
        return '({k:"G", get then() { return f%d(); }})' % e[1]
    if t == 'obj':
        return '({k:"O"})'
    if t == 'resolve':
        return 'Promise.resolve(%s)' % e_js(e[1])
    if t == 'reject':
        return 'Promise.reject(%s)' % e_js(e[1])
    if t == 'new':
        return 'new Promise(f%d)' % e[1]
    if t == 'then':
        return '(%s).then(%s, %s)' % (e_js(e[1]), e_js(e[2]), e_js(e[3]))
    if t == 'catch':
        return '(%s).catch(%s)' % (e_js(e[1]), e_js(e[2]))
    if t == 'finally':
        return '(%s).finally(%s)' % (e_js(e[1]), e_js(e[2]))
    if t == 'comb':
        return 'Promise.%s([%s])' % (COMB_JS[e[1]], ', '.join(e_js(x) for x in e[2]))
    if t == 'call':
        return '(%s)(%s)' % (e_js(e[1]), e_js(e[2]))
    raise ValueError(e)


def s_js(s, ind='  '):
    t = s[0]
    if t == 'print':
        return ind + 'print("L%d " + show(%s));' % (s[1], e_js(s[2]))
    if t == 'let':
        return ind + 'v%d = %s;' % (s[1], e_js(s[2]))
    if t == 'expr':
        return ind + '(%s);' % e_js(s[1])
    if t == 'return':
        return ind + 'return %s;' % e_js(s[1])
    if t == 'throw':
        return ind + 'throw %s;' % e_js(s[1])
    if t == 'await':
        return ind + 'v%d = await %s;' % (s[1], e_js(s[2]))
    if t == 'try':
        return (ind + 'try {\n' + '\n'.join(s_js(x, ind + '  ') for x in s[1]) + '\n' + ind + '} catch (e) {\n' +
                ind + '  v%d = e;\n' % s[2] + '\n'.join(s_js(x, ind + '  ') for x in s[3]) + '\n' + ind + '}')
    if t == 'hang':
        return ind + 'for (;;) {}'
    raise ValueError(s)


def to_js(p, cuts=False):
    """JavaScript text.  With cuts=True the main statements are separated by `//#CUT` lines (harness mode `multi`)."""
    out = [PRELUDE.rstrip('\n')]
    if p['nvars']:
        out.append('var ' + ', '.join('v%d' % i for i in range(p['nvars'])) + ';')
    for i, f in enumerate(p['funs']):
        out.append('%sfunction f%d(a, b) {\n%s\n}' % ('async ' if f['async'] else '', i, '\n'.join(s_js(x) for x in f['body'])))
    head = '\n'.join(out)
    main = [s_js(x, '') for x in p['main']]
    if cuts:
        return head + '\n//#CUT\n' + '\n//#CUT\n'.join(main) + '\n'
    return head + '\n' + '\n'.join(main) + '\n'


def e_coq(e):
    t = e[0]
    if t == 'undef':
        return 'EUndef'
    if t == 'num':
        return '(ENum %d)' % e[1]
    if t == 'var':
        return '(EVar %d)' % e[1]
    if t == 'arg':
        return '(EArg %d)' % e[1]
    if t == 'fun':
        return '(EFun %d)' % e[1]
    if t == 'thenable':
        return '(EThenable %d)' % e[1]
    if t == 'getter':
        return '(EThenGetter %d)' % e[1]
    if t == 'obj':
        return 'EObj'
    if t == 'resolve':
        return '(EResolve %s)' % e_coq(e[1])
    if t == 'reject':
        return '(EReject %s)' % e_coq(e[1])
    if t == 'new':
        return '(ENew %d)' % e[1]
    if t == 'then':
        return '(EThen %s %s %s)' % (e_coq(e[1]), e_coq(e[2]), e_coq(e[3]))
    if t == 'catch':
        return '(ECatch %s %s)' % (e_coq(e[1]), e_coq(e[2]))
    if t == 'finally':
        return '(EFinally %s %s)' % (e_coq(e[1]), e_coq(e[2]))
    if t == 'comb':
        return '(EComb %s [%s])' % (COMB_COQ[e[1]], '; '.join(e_coq(x) for x in e[2]))
    if t == 'call':
        return '(ECall %s %s)' % (e_coq(e[1]), e_coq(e[2]))
    raise ValueError(e)


def s_coq(s):
    t = s[0]
    if t == 'print':
        return '(SPrint %d %s)' % (s[1], e_coq(s[2]))
    if t == 'let':
        return '(SLet %d %s)' % (s[1], e_coq(s[2]))
    if t == 'expr':
        return '(SExpr %s)' % e_coq(s[1])
    if t == 'return':
        return '(SReturn %s)' % e_coq(s[1])
    if t == 'throw':
        return '(SThrow %s)' % e_coq(s[1])
    if t == 'await':
        return '(SAwait %d %s)' % (s[1], e_coq(s[2]))
    if t == 'try':
        return '(STry [%s] %d [%s])' % ('; '.join(s_coq(x) for x in s[1]), s[2], '; '.join(s_coq(x) for x in s[3]))
    if t == 'hang':
        return 'SHang'
    raise ValueError(s)


def to_coq(p):
    funs = '; '.join('mkF %s [%s]' % ('true' if f['async'] else 'false', '; '.join(s_coq(x) for x in f['body'])) for f in p['funs'])
    return '(mkProg [%s] [%s])' % (funs, '; '.join(s_coq(x) for x in p['main']))


# ------------------------------------------------------------------------------------------------
# generator

class Gen:
    def __init__(self, rng, size=None, edge=None, hang=None):
        self.r = rng
        self.funs = []
        self.nvars = 0
        self.nlabels = 0
        self.prints = 0
        self.max_prints = 30
        self.size = size if size is not None else rng.choice([3, 4, 5, 6, 8, 10])
        self.edge = (rng.random() < 0.15) if edge is None else edge     # ill-typed / degenerate constructs allowed
        self.hang = (rng.random() < 0.08) if hang is None else hang     # one callback exceeds the loop limit
        self.hang_placed = False
        self.proms = []      # variables that hold a native promise once assigned
        self.resolvers = []  # variables that hold a resolving function once the executor ran
        self.asyncs = []     # async function indices callable from anywhere
        self.feat = set()
        self.depth = 0

    # -- helpers
    def label(self):
        self.nlabels += 1
        self.prints += 1
        return self.nlabels - 1

    def fresh(self):
        self.nvars += 1
        return self.nvars - 1

    def room(self):
        return self.prints < self.max_prints

    def new_fun(self, is_async, mk):
        idx = len(self.funs)
        self.funs.append(None)
        self.depth += 1
        body = mk()
        self.depth -= 1
        self.funs[idx] = {'async': is_async, 'body': body}
        return idx

    def pick(self, weighted):
        tot = sum(w for w, _ in weighted)
        x = self.r.random() * tot
        for w, v in weighted:
            x -= w
            if x <= 0:
                return v
        return weighted[-1][1]

    # -- values
    def val(self, infun=False, deep=True):
        opts = [(4, 'num'), (1, 'undef')]
        if infun:
            opts.append((3, 'arg'))
        if self.proms:
            opts.append((3, 'pvar'))
        if deep and self.depth < 3 and self.room():
            opts += [(2, 'thenable'), (1, 'presolve'), (1, 'preject'), (0.5, 'getter'), (0.5, 'obj')]
            if self.asyncs:
                opts.append((1, 'acall'))
        k = self.pick(opts)
        if k == 'num':
            return ('num', self.r.randrange(0, 100))
        if k == 'undef':
            return ('undef',)
        if k == 'arg':
            return ('arg', 0)
        if k == 'pvar':
            return ('var', self.r.choice(self.proms))
        if k == 'thenable':
            self.feat.add('thenable')
            return ('thenable', self.thenable_fn())
        if k == 'getter':
            self.feat.add('then-getter')
            return ('getter', self.getter_fn())
        if k == 'obj':
            return ('obj',)
        if k == 'presolve':
            return ('resolve', self.val(infun, deep=False))
        if k == 'preject':
            self.feat.add('reject')
            return ('reject', self.val(infun, deep=False))
        if k == 'acall':
            self.feat.add('async-call')
            return ('call', ('fun', self.r.choice(self.asyncs)), self.val(infun, deep=False))
        raise AssertionError(k)

    # -- functions
    def ending(self, infun=True):
        """how a callback ends: return a value / throw / fall off"""
        k = self.pick([(5, 'ret'), (2, 'none'), (1.5, 'throw')])
        if k == 'ret':
            v = self.val(infun)
            if v[0] in ('resolve', 'reject', 'var', 'call'):
                self.feat.add('return-promise')
            if v[0] in ('thenable', 'getter'):
                self.feat.add('return-thenable')
            return [('return', v)]
        if k == 'throw':
            self.feat.add('throw')
            return [('throw', self.val(infun, deep=False))]
        return []

    def callback(self, allow_hang=False):
        """then / catch callback: function (a) { print; [nested enqueue]; ending }"""
        def mk():
            body = [('print', self.label(), ('arg', 0))]
            if allow_hang and self.hang and not self.hang_placed:
                self.hang_placed = True
                self.feat.add('hang')
                return body + [('hang',)]
            if self.depth < 3 and self.room() and self.r.random() < 0.35:
                self.feat.add('nested-enqueue')
                body.append(('expr', self.chain(self.prom_expr(True), True, 1)))
            if self.resolvers and self.r.random() < 0.2:
                body.append(('expr', ('call', ('var', self.r.choice(self.resolvers)), self.val(True, deep=False))))
            return body + self.ending()
        return self.new_fun(False, mk)

    def async_callback(self):
        self.feat.add('async-callback')
        return self.async_fn(register=False)

    def finally_cb(self):
        def mk():
            body = [('print', self.label(), ('arg', 0))]
            return body + self.ending(False)
        return self.new_fun(False, mk)

    def executor(self):
        def mk():
            body = [('print', self.label(), ('undef',))]
            k = self.pick([(4, 'res'), (2, 'rej'), (2, 'store'), (1, 'throw'), (1, 'twice'), (1, 'none'), (1, 'res-throw')])
            if k == 'res':
                body.append(('expr', ('call', ('arg', 0), self.val())))
            elif k == 'rej':
                self.feat.add('reject')
                body.append(('expr', ('call', ('arg', 1), self.val(deep=False))))
            elif k == 'store':
                self.feat.add('deferred-resolve')
                x = self.fresh()
                self.resolvers.append(x)
                body.append(('let', x, ('arg', self.r.choice([0, 0, 1]))))
            elif k == 'throw':
                self.feat.add('throw')
                body.append(('throw', self.val(deep=False)))
            elif k == 'twice':
                body.append(('expr', ('call', ('arg', 0), self.val(deep=False))))
                body.append(('expr', ('call', ('arg', self.r.choice([0, 1])), self.val(deep=False))))
            elif k == 'res-throw':
                body.append(('expr', ('call', ('arg', 0), self.val(deep=False))))
                body.append(('throw', ('num', 99)))
            return body
        return self.new_fun(False, mk)

    def thenable_fn(self):
        """then(res, rej) of a user thenable"""
        def mk():
            body = [('print', self.label(), ('undef',))]
            k = self.pick([(5, 'res'), (2, 'rej'), (1, 'store'), (1, 'throw'), (1, 'twice'), (1, 'none'), (1, 'res-throw'), (1, 'defer')])
            if k == 'res':
                body.append(('expr', ('call', ('arg', 0), self.val())))
            elif k == 'rej':
                body.append(('expr', ('call', ('arg', 1), self.val(deep=False))))
            elif k == 'store':
                x = self.fresh()
                self.resolvers.append(x)
                body.append(('let', x, ('arg', 0)))
            elif k == 'throw':
                body.append(('throw', self.val(deep=False)))
            elif k == 'twice':
                body.append(('expr', ('call', ('arg', 0), self.val(deep=False))))
                body.append(('expr', ('call', ('arg', 1), self.val(deep=False))))
            elif k == 'res-throw':
                body.append(('expr', ('call', ('arg', 0), self.val(deep=False))))
                body.append(('throw', ('num', 98)))
            elif k == 'defer':
                # Promise.resolve(x).then(res): the thenable resolves one tick later
                body.append(('expr', ('then', ('resolve', self.val(deep=False)), ('arg', 0), ('arg', 1))))
            if self.r.random() < 0.3:
                body.append(('return', self.val(deep=False)))
            return body
        return self.new_fun(False, mk)

    def getter_fn(self):
        def mk():
            body = [('print', self.label(), ('undef',))]
            k = self.pick([(5, 'fun'), (1, 'num'), (1, 'throw')])
            if k == 'fun':
                body.append(('return', ('fun', self.thenable_fn())))
            elif k == 'num':
                body.append(('return', ('num', 5)))
            else:
                body.append(('throw', ('num', self.r.randrange(100))))
            return body
        return self.new_fun(False, mk)

    def async_fn(self, register=True):
        def mk():
            self.feat.add('async')
            body = [('print', self.label(), ('arg', 0))]
            n = self.r.choice([1, 1, 2, 2, 3])
            for _ in range(n):
                if not self.room():
                    break
                x = self.fresh()
                v = self.val(True)
                if v[0] in ('thenable', 'getter'):
                    self.feat.add('await-thenable')
                elif v[0] in ('num', 'undef', 'obj'):
                    self.feat.add('await-nonpromise')
                else:
                    self.feat.add('await-promise')
                aw = [('await', x, v), ('print', self.label(), ('var', x))]
                if self.r.random() < 0.3:
                    self.feat.add('await-in-try')
                    y = self.fresh()
                    body.append(('try', aw, y, [('print', self.label(), ('var', y))]))
                else:
                    body += aw
            return body + self.ending()
        idx = self.new_fun(True, mk)
        if register:
            self.asyncs.append(idx)
        return idx

    # -- promise expressions
    def prom_expr(self, infun=False):
        opts = [(3, 'resolve'), (1.5, 'reject'), (2, 'new')]
        if self.proms:
            opts.append((4, 'var'))
        if self.asyncs:
            opts.append((2, 'acall'))
        if self.depth < 2 and self.room():
            opts.append((1.5, 'comb'))
        k = self.pick(opts)
        if k == 'resolve':
            return ('resolve', self.val(infun))
        if k == 'reject':
            self.feat.add('reject')
            return ('reject', self.val(infun, deep=False))
        if k == 'new':
            self.feat.add('new-promise')
            return ('new', self.executor())
        if k == 'var':
            return ('var', self.r.choice(self.proms))
        if k == 'acall':
            self.feat.add('async-call')
            return ('call', ('fun', self.r.choice(self.asyncs)), self.val(infun, deep=False))
        return self.comb(infun)

    def comb(self, infun=False):
        kind = self.r.choice(['all', 'race', 'allSettled', 'any'])
        self.feat.add('comb-' + kind)
        n = self.pick([(1, 0), (2, 1), (4, 2), (4, 3), (1, 4)]) if self.edge else self.r.choice([1, 2, 2, 3, 3])
        elems = []
        for _ in range(n):
            k = self.pick([(4, 'prom'), (2, 'val')])
            if k == 'prom' and self.proms:
                elems.append(('var', self.r.choice(self.proms)))
            else:
                elems.append(self.val(infun))
        return ('comb', kind, elems)

    def handler(self, allow_hang):
        """an argument of then/catch: mostly a callback, sometimes undefined / a non-callable"""
        k = self.pick([(8, 'cb'), (1.5, 'undef'), (0.7, 'async'), (0.3 if self.edge else 0, 'num')])
        if k == 'cb':
            return ('fun', self.callback(allow_hang))
        if k == 'async' and self.room():
            return ('fun', self.async_callback())
        if k == 'num':
            return ('num', 3)
        return ('undef',)

    def chain(self, base, infun=False, maxlen=3):
        """base.then(..).catch(..).finally(..) ... ; base is a native-promise expression"""
        e = base
        for _ in range(self.r.randrange(1, maxlen + 1)):
            if not self.room():
                break
            k = self.pick([(6, 'then'), (2, 'then2'), (1.5, 'catch'), (1.5, 'finally')])
            if k == 'then':
                e = ('then', e, self.handler(True), ('undef',))
            elif k == 'then2':
                e = ('then', e, self.handler(True), self.handler(False))
            elif k == 'catch':
                self.feat.add('catch')
                e = ('catch', e, self.handler(False))
            else:
                self.feat.add('finally')
                f = ('fun', self.finally_cb()) if self.r.random() < 0.9 else ('undef',)
                e = ('finally', e, f)
        return e

    # -- main
    def main_stmt(self):
        opts = [(4, 'chain'), (3, 'letp'), (1, 'print')]
        if self.asyncs:
            opts.append((2.5, 'acall'))
        if self.resolvers:
            opts.append((2, 'resolve-later'))
        if len(self.proms) >= 2:
            opts.append((2, 'comb'))
            opts.append((1.5, 'race-chains'))
        if self.edge:
            opts += [(1, 'illtyped'), (0.7, 'self-resolve'), (0.7, 'try-throw')]
        k = self.pick(opts)
        if k == 'chain':
            return [('expr', self.chain(self.prom_expr()))]
        if k == 'letp':
            x = self.fresh()
            e = self.prom_expr()
            if self.r.random() < 0.5:
                e = self.chain(e, maxlen=2)
            self.proms.append(x)
            return [('let', x, e)]
        if k == 'print':
            return [('print', self.label(), self.val(deep=False))]
        if k == 'acall':
            self.feat.add('async-call')
            x = self.fresh()
            st = ('let', x, ('call', ('fun', self.r.choice(self.asyncs)), self.val(deep=False)))
            self.proms.append(x)
            return [st]
        if k == 'resolve-later':
            return [('expr', ('call', ('var', self.r.choice(self.resolvers)), self.val()))]
        if k == 'comb':
            x = self.fresh()
            e = self.chain(self.comb(), maxlen=1)
            self.proms.append(x)
            return [('let', x, e)]
        if k == 'race-chains':
            # two independent chains whose relative order is printed
            self.feat.add('racing-chains')
            a, b = self.r.sample(self.proms, 2)
            return [('expr', self.chain(('var', a), maxlen=2)), ('expr', self.chain(('var', b), maxlen=2))]
        if k == 'illtyped':
            self.feat.add('ill-typed')
            kk = self.r.choice(['then-on-num', 'call-nonfun', 'catch-on-thenable', 'then-on-thenable'])
            y = self.fresh()
            if kk == 'then-on-num':
                bad = ('then', ('num', 1), ('fun', self.callback()), ('undef',))
            elif kk == 'call-nonfun':
                bad = ('call', ('num', 2), ('undef',))
            elif kk == 'catch-on-thenable':
                bad = ('catch', ('thenable', self.thenable_fn()), ('fun', self.callback()))
            else:
                bad = ('then', ('thenable', self.thenable_fn()), ('fun', self.callback()), ('fun', self.callback()))
            return [('try', [('expr', bad)], y, [('print', self.label(), ('var', y))])]
        if k == 'self-resolve':
            self.feat.add('self-resolution')
            x = self.fresh()
            f = self.new_fun(False, lambda: [('print', self.label(), ('arg', 0)), ('return', ('var', x))])
            self.proms.append(x)
            return [('let', x, ('then', self.prom_expr(), ('fun', f), ('undef',)))]
        if k == 'try-throw':
            y = self.fresh()
            return [('try', [('print', self.label(), ('undef',)), ('throw', self.val(deep=False))], y, [('print', self.label(), ('var', y))])]
        raise AssertionError(k)

    def program(self):
        # a few async functions first so that everything can call them
        for _ in range(self.r.choice([0, 1, 1, 2])):
            self.async_fn()
        main = []
        for _ in range(self.size):
            if not self.room():
                break
            main += self.main_stmt()
        if self.hang and not self.hang_placed:
            main.append(('expr', ('then', ('resolve', ('num', 1)), ('fun', self.callback(True)), ('undef',))))
            # something queued behind it that must be dropped
            main.append(('expr', ('then', ('resolve', ('num', 2)), ('fun', self.callback()), ('undef',))))
        main.append(('print', self.label(), ('undef',)))
        if self.edge and self.r.random() < 0.2:
            self.feat.add('top-level-throw')
            main.append(('throw', ('num', 77)))
        return {'funs': self.funs, 'main': main, 'nvars': self.nvars, 'hang': self.hang_placed,
                'features': sorted(self.feat), 'prints': self.prints, 'edge': self.edge}


def generate(rng, **kw):
    return Gen(rng, **kw).program()


# ------------------------------------------------------------------------------------------------
# shrinking (delta debugging on main statements and function bodies)

def shrink(p, still_fails, max_steps=200):
    """Greedy: drop main statements, then statements of function bodies, while `still_fails(prog)`."""
    import copy
    cur = copy.deepcopy(p)
    steps = 0
    changed = True
    while changed and steps < max_steps:
        changed = False
        for i in range(len(cur['main']) - 1, -1, -1):
            cand = copy.deepcopy(cur)
            del cand['main'][i]
            steps += 1
            if cand['main'] and still_fails(cand):
                cur = cand
                changed = True
        for fi, f in enumerate(cur['funs']):
            for i in range(len(f['body']) - 1, -1, -1):
                cand = copy.deepcopy(cur)
                del cand['funs'][fi]['body'][i]
                steps += 1
                if still_fails(cand):
                    cur = cand
                    changed = True
            if steps > max_steps:
                break
    return cur
