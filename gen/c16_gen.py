"""C16 program generator: programs of the promise DSL of coq/C16/Promise.v.

One AST, two printers: `to_js` (JavaScript for boa / node) and `to_coq` (a Gallina `prog` term).
All randomness comes from the `random.Random` handed in (run.rng).

AST (tuples):
  expr: ('undef',) ('num',n) ('var',x) ('arg',i) ('fun',f) ('thenable',f) ('getter',f) ('obj',)
        ('resolve',e) ('reject',e) ('new',f) ('then',p,f,r) ('catch',p,r) ('finally',p,f)
        ('comb',kind,[e]) ('call',f,a) ('next',rk,g,a) with rk in 'next' | 'return' | 'throw'
        ('subresolve',e) ('subnew',f) ('patch',('get',l,m),e) ('patch',('data',c),e)   (m: 0 Promise, 1 Other, 2 throw;
        c: 0 Promise, 1 Sub, 2 Other, 3 undefined, 4 the number 5)
  stmt: ('print',l,e) ('let',x,e) ('expr',e) ('return',e) ('throw',e) ('await',x,e) ('yield',x,e) ('yieldstar',x,e)
        ('forawait',x,git,e,[stmt])   (git: a variable only the model uses, to hold the iterator)
        ('try',[stmt],x,[stmt]) ('hang',)
  program: {'funs': [{'kind': 'sync'|'async'|'agen', 'body': [stmt]}], 'main': [stmt], 'nvars': int, 'hang': bool, 'features': set}
"""

PRELUDE = (
    'function show(v){ if (v === undefined) return "undefined"; if (typeof v === "number") return String(v); '
    'if (typeof v === "function") return "F"; if (v instanceof Promise) return "P"; '
    'if (typeof v.next === "function") return "AG"; '
    'if (Object.prototype.hasOwnProperty.call(v, "done")) return show(v.value) + (v.done ? "!" : ""); '
    'if (Array.isArray(v)) return "[" + v.map(show).join(",") + "]"; '
    'if (v instanceof Error) return v.name + (v.errors ? show(v.errors) : ""); '
    'if (Object.prototype.hasOwnProperty.call(v, "status")) return v.status + ":" + show(v.status === "fulfilled" ? v.value : v.reason); '
    'return v.k; }\n'
    'class Sub extends Promise {}\n'
    'function Other() {}\n'
    'function pg(p, l, m) { Object.defineProperty(p, "constructor", { configurable: true, get() { print("L" + l + " undefined"); '
    'if (m === 2) throw 41; return m === 0 ? Promise : Other; } }); return p; }\n'
    'function pd(p, m) { Object.defineProperty(p, "constructor", { configurable: true, writable: true, '
    'value: [Promise, Sub, Other, undefined, 5][m] }); return p; }\n')

FKIND_JS = {'sync': 'function', 'async': 'async function', 'agen': 'async function*'}
FKIND_COQ = {'sync': 'FSync', 'async': 'FAsync', 'agen': 'FAsyncGen'}
RK_COQ = {'next': 'RNext', 'return': 'RReturn', 'throw': 'RThrow'}


def fkind(f):
    """function kind; older corpus entries have {'async': bool}"""
    return f['kind'] if 'kind' in f else ('async' if f.get('async') else 'sync')


COMB_JS = {'all': 'all', 'race': 'race', 'allSettled': 'allSettled', 'any': 'any'}
COMB_COQ = {'all': 'KAll', 'race': 'KRace', 'allSettled': 'KAllSettled', 'any': 'KAny'}


# ------------------------------------------------------------------------------------------------
# printers

def e_js(e):
    t = e[0]
    if t == 'undef':
        return 'undefined'
    if t == 'num':
        return str(e[1])
    if t == 'var':
        return 'v%d' % e[1]
    if t == 'arg':
        return 'ab'[e[1]]
    if t == 'fun':
        return 'f%d' % e[1]
    if t == 'thenable':
        return '({k:"T", then: f%d})' % e[1]
    if t == 'getter':
        return '({k:"G", get then() { return f%d(); }})' % e[1]
    if t == 'obj':
        return '({k:"O"})'
    if t == 'resolve':
        return 'Promise.resolve(%s)' % e_js(e[1])
    if t == 'reject':
        return 'Promise.reject(%s)' % e_js(e[1])
    if t == 'new':
        return 'new Promise(f%d)' % e[1]
    if t == 'then':
        return '(%s).then(%s, %s)' % (e_js(e[1]), e_js(e[2]), e_js(e[3]))
    if t == 'catch':
        return '(%s).catch(%s)' % (e_js(e[1]), e_js(e[2]))
    if t == 'finally':
        return '(%s).finally(%s)' % (e_js(e[1]), e_js(e[2]))
    if t == 'comb':
        return 'Promise.%s([%s])' % (COMB_JS[e[1]], ', '.join(e_js(x) for x in e[2]))
    if t == 'call':
        return '(%s)(%s)' % (e_js(e[1]), e_js(e[2]))
    if t == 'next':
        return '(%s).%s(%s)' % (e_js(e[2]), e[1], e_js(e[3]))
    if t == 'subresolve':
        return 'Sub.resolve(%s)' % e_js(e[1])
    if t == 'subnew':
        return 'new Sub(f%d)' % e[1]
    if t == 'patch':
        if e[1][0] == 'get':
            return 'pg(%s, %d, %d)' % (e_js(e[2]), e[1][1], e[1][2])
        return 'pd(%s, %d)' % (e_js(e[2]), e[1][1])
    raise ValueError(e)


def s_js(s, ind='  '):
    t = s[0]
    if t == 'print':
        return ind + 'print("L%d " + show(%s));' % (s[1], e_js(s[2]))
    if t == 'let':
        return ind + 'v%d = %s;' % (s[1], e_js(s[2]))
    if t == 'expr':
        return ind + '(%s);' % e_js(s[1])
    if t == 'return':
        return ind + 'return %s;' % e_js(s[1])
    if t == 'throw':
        return ind + 'throw %s;' % e_js(s[1])
    if t == 'await':
        return ind + 'v%d = await %s;' % (s[1], e_js(s[2]))
    if t == 'yield':
        return ind + 'v%d = yield %s;' % (s[1], e_js(s[2]))
    if t == 'yieldstar':
        return ind + 'v%d = yield* %s;' % (s[1], e_js(s[2]))
    if t == 'forawait':
        return (ind + 'for await (v%d of %s) {\n' % (s[1], e_js(s[3])) + '\n'.join(s_js(x, ind + '  ') for x in s[4]) + '\n' + ind + '}')
    if t == 'try':
        return (ind + 'try {\n' + '\n'.join(s_js(x, ind + '  ') for x in s[1]) + '\n' + ind + '} catch (e) {\n' +
                ind + '  v%d = e;\n' % s[2] + '\n'.join(s_js(x, ind + '  ') for x in s[3]) + '\n' + ind + '}')
    if t == 'hang':
        return ind + 'for (;;) {}'
    raise ValueError(s)


def to_js(p, cuts=False):
    """JavaScript text.  With cuts=True the main statements are separated by `//#CUT` lines (harness mode `multi`)."""
    out = [PRELUDE.rstrip('\n')]
    if p['nvars']:
        out.append('var ' + ', '.join('v%d' % i for i in range(p['nvars'])) + ';')
    for i, f in enumerate(p['funs']):
        out.append('%s f%d(a, b) {\n%s\n}' % (FKIND_JS[fkind(f)], i, '\n'.join(s_js(x) for x in f['body'])))
    head = '\n'.join(out)
    main = [s_js(x, '') for x in p['main']]
    if cuts:
        return head + '\n//#CUT\n' + '\n//#CUT\n'.join(main) + '\n'
    return head + '\n' + '\n'.join(main) + '\n'


def to_js_parts(p):
    """(declarations, main) with to_js(p) == declarations + main"""
    js = to_js(p)
    main = '\n'.join(s_js(x, '') for x in p['main']) + '\n'
    assert js.endswith(main)
    return js[:len(js) - len(main)], main


def e_coq(e):
    t = e[0]
    if t == 'undef':
        return 'EUndef'
    if t == 'num':
        return '(ENum %d)' % e[1]
    if t == 'var':
        return '(EVar %d)' % e[1]
    if t == 'arg':
        return '(EArg %d)' % e[1]
    if t == 'fun':
        return '(EFun %d)' % e[1]
    if t == 'thenable':
        return '(EThenable %d)' % e[1]
    if t == 'getter':
        return '(EThenGetter %d)' % e[1]
    if t == 'obj':
        return 'EObj'
    if t == 'resolve':
        return '(EResolve %s)' % e_coq(e[1])
    if t == 'reject':
        return '(EReject %s)' % e_coq(e[1])
    if t == 'new':
        return '(ENew %d)' % e[1]
    if t == 'then':
        return '(EThen %s %s %s)' % (e_coq(e[1]), e_coq(e[2]), e_coq(e[3]))
    if t == 'catch':
        return '(ECatch %s %s)' % (e_coq(e[1]), e_coq(e[2]))
    if t == 'finally':
        return '(EFinally %s %s)' % (e_coq(e[1]), e_coq(e[2]))
    if t == 'comb':
        return '(EComb %s [%s])' % (COMB_COQ[e[1]], '; '.join(e_coq(x) for x in e[2]))
    if t == 'call':
        return '(ECall %s %s)' % (e_coq(e[1]), e_coq(e[2]))
    if t == 'next':
        return '(ENext %s %s %s)' % (RK_COQ[e[1]], e_coq(e[2]), e_coq(e[3]))
    if t == 'subresolve':
        return '(ESubResolve %s)' % e_coq(e[1])
    if t == 'subnew':
        return '(ESubNew %d)' % e[1]
    if t == 'patch':
        if e[1][0] == 'get':
            pt = '(PatGet %d %s)' % (e[1][1], ('GProm', 'GOther', 'GThrow')[e[1][2]])
        else:
            pt = '(PatData %s)' % ('CtPromise', 'CtSub', 'CtOther', 'CtUndef', 'CtNum')[e[1][1]]
        return '(EPatch %s %s)' % (pt, e_coq(e[2]))
    raise ValueError(e)


def s_coq(s):
    t = s[0]
    if t == 'print':
        return '(SPrint %d %s)' % (s[1], e_coq(s[2]))
    if t == 'let':
        return '(SLet %d %s)' % (s[1], e_coq(s[2]))
    if t == 'expr':
        return '(SExpr %s)' % e_coq(s[1])
    if t == 'return':
        return '(SReturn %s)' % e_coq(s[1])
    if t == 'throw':
        return '(SThrow %s)' % e_coq(s[1])
    if t == 'await':
        return '(SAwait %d %s)' % (s[1], e_coq(s[2]))
    if t == 'yield':
        return '(SYield %d %s)' % (s[1], e_coq(s[2]))
    if t == 'yieldstar':
        return '(SYieldStar %d %s)' % (s[1], e_coq(s[2]))
    if t == 'forawait':
        return '(SForAwait %d %d %s [%s])' % (s[1], s[2], e_coq(s[3]), '; '.join(s_coq(x) for x in s[4]))
    if t == 'try':
        return '(STry [%s] %d [%s])' % ('; '.join(s_coq(x) for x in s[1]), s[2], '; '.join(s_coq(x) for x in s[3]))
    if t == 'hang':
        return 'SHang'
    raise ValueError(s)


def to_coq(p):
    funs = '; '.join('mkF %s [%s]' % (FKIND_COQ[fkind(f)], '; '.join(s_coq(x) for x in f['body'])) for f in p['funs'])
    return '(mkProg [%s] [%s])' % (funs, '; '.join(s_coq(x) for x in p['main']))


# ------------------------------------------------------------------------------------------------
# generator

class Gen:
    def __init__(self, rng, size=None, edge=None, hang=None):
        self.r = rng
        self.funs = []
        self.nvars = 0
        self.nlabels = 0
        self.prints = 0
        self.max_prints = 30
        self.size = size if size is not None else rng.choice([3, 4, 5, 6, 8, 10])
        self.edge = (rng.random() < 0.15) if edge is None else edge     # ill-typed / degenerate constructs allowed
        self.hang = (rng.random() < 0.08) if hang is None else hang     # one callback exceeds the loop limit
        self.hang_placed = False
        self.proms = []      # variables that hold a native promise once assigned
        self.resolvers = []  # variables that hold a resolving function once the executor ran
        self.asyncs = []     # async function indices callable from anywhere
        self.agens = []      # async generator function indices
        self.gens = []       # variables that hold an async generator object once assigned
        self.gen_fn = {}     # generator variable -> index of its async generator function
        self.star_fns = set()   # async generator functions whose body delegates with yield*
        self.feat = set()
        self.depth = 0

    # -- helpers
    def label(self):
        self.nlabels += 1
        self.prints += 1
        return self.nlabels - 1

    def fresh(self):
        self.nvars += 1
        return self.nvars - 1

    def room(self):
        return self.prints < self.max_prints

    def new_fun(self, is_async, mk):
        idx = len(self.funs)
        self.funs.append(None)
        self.depth += 1
        body = mk()
        self.depth -= 1
        kind = is_async if isinstance(is_async, str) else ('async' if is_async else 'sync')
        self.funs[idx] = {'kind': kind, 'body': body}
        return idx

    def pick(self, weighted):
        tot = sum(w for w, _ in weighted)
        x = self.r.random() * tot
        for w, v in weighted:
            x -= w
            if x <= 0:
                return v
        return weighted[-1][1]

    # -- values
    def val(self, infun=False, deep=True):
        opts = [(4, 'num'), (1, 'undef')]
        if infun:
            opts.append((3, 'arg'))
        if self.proms:
            opts.append((3, 'pvar'))
        if deep and self.depth < 3 and self.room():
            opts += [(2, 'thenable'), (1, 'presolve'), (1, 'preject'), (0.5, 'getter'), (0.5, 'obj'), (1.6, 'exotic')]
            if self.asyncs:
                opts.append((1, 'acall'))
        k = self.pick(opts)
        if k == 'num':
            return ('num', self.r.randrange(0, 100))
        if k == 'undef':
            return ('undef',)
        if k == 'arg':
            return ('arg', 0)
        if k == 'pvar':
            return ('var', self.r.choice(self.proms))
        if k == 'thenable':
            self.feat.add('thenable')
            return ('thenable', self.thenable_fn())
        if k == 'getter':
            self.feat.add('then-getter')
            return ('getter', self.getter_fn())
        if k == 'obj':
            return ('obj',)
        if k == 'exotic':
            return self.exotic()
        if k == 'presolve':
            return ('resolve', self.val(infun, deep=False))
        if k == 'preject':
            self.feat.add('reject')
            return ('reject', self.val(infun, deep=False))
        if k == 'acall':
            self.feat.add('async-call')
            return ('call', ('fun', self.r.choice(self.asyncs)), self.val(infun, deep=False))
        raise AssertionError(k)

    # -- functions
    def ending(self, infun=True):
        """how a callback ends: return a value / throw / fall off"""
        k = self.pick([(5, 'ret'), (2, 'none'), (1.5, 'throw')])
        if k == 'ret':
            v = self.val(infun)
            if v[0] in ('resolve', 'reject', 'var', 'call'):
                self.feat.add('return-promise')
            if v[0] in ('thenable', 'getter'):
                self.feat.add('return-thenable')
            return [('return', v)]
        if k == 'throw':
            self.feat.add('throw')
            return [('throw', self.val(infun, deep=False))]
        return []

    def callback(self, allow_hang=False):
        """then / catch callback: function (a) { print; [nested enqueue]; ending }"""
        def mk():
            body = [('print', self.label(), ('arg', 0))]
            if allow_hang and self.hang and not self.hang_placed:
                self.hang_placed = True
                self.feat.add('hang')
                return body + [('hang',)]
            if self.depth < 3 and self.room() and self.r.random() < 0.35:
                self.feat.add('nested-enqueue')
                body.append(('expr', self.chain(self.prom_expr(True), True, 1)))
            if self.resolvers and self.r.random() < 0.2:
                body.append(('expr', ('call', ('var', self.r.choice(self.resolvers)), self.val(True, deep=False))))
            return body + self.ending()
        return self.new_fun(False, mk)

    def async_callback(self):
        self.feat.add('async-callback')
        return self.async_fn(register=False)

    def finally_cb(self):
        def mk():
            body = [('print', self.label(), ('arg', 0))]
            return body + self.ending(False)
        return self.new_fun(False, mk)

    def executor(self):
        def mk():
            body = [('print', self.label(), ('undef',))]
            k = self.pick([(4, 'res'), (2, 'rej'), (2, 'store'), (1, 'throw'), (1, 'twice'), (1, 'none'), (1, 'res-throw')])
            if k == 'res':
                body.append(('expr', ('call', ('arg', 0), self.val())))
            elif k == 'rej':
                self.feat.add('reject')
                body.append(('expr', ('call', ('arg', 1), self.val(deep=False))))
            elif k == 'store':
                self.feat.add('deferred-resolve')
                x = self.fresh()
                self.resolvers.append(x)
                body.append(('let', x, ('arg', self.r.choice([0, 0, 1]))))
            elif k == 'throw':
                self.feat.add('throw')
                body.append(('throw', self.val(deep=False)))
            elif k == 'twice':
                body.append(('expr', ('call', ('arg', 0), self.val(deep=False))))
                body.append(('expr', ('call', ('arg', self.r.choice([0, 1])), self.val(deep=False))))
            elif k == 'res-throw':
                body.append(('expr', ('call', ('arg', 0), self.val(deep=False))))
                body.append(('throw', ('num', 99)))
            return body
        return self.new_fun(False, mk)

    def thenable_fn(self):
        """then(res, rej) of a user thenable"""
        def mk():
            body = [('print', self.label(), ('undef',))]
            k = self.pick([(5, 'res'), (2, 'rej'), (1, 'store'), (1, 'throw'), (1, 'twice'), (1, 'none'), (1, 'res-throw'), (1, 'defer')])
            if k == 'res':
                body.append(('expr', ('call', ('arg', 0), self.val())))
            elif k == 'rej':
                body.append(('expr', ('call', ('arg', 1), self.val(deep=False))))
            elif k == 'store':
                x = self.fresh()
                self.resolvers.append(x)
                body.append(('let', x, ('arg', 0)))
            elif k == 'throw':
                body.append(('throw', self.val(deep=False)))
            elif k == 'twice':
                body.append(('expr', ('call', ('arg', 0), self.val(deep=False))))
                body.append(('expr', ('call', ('arg', 1), self.val(deep=False))))
            elif k == 'res-throw':
                body.append(('expr', ('call', ('arg', 0), self.val(deep=False))))
                body.append(('throw', ('num', 98)))
            elif k == 'defer':
                # Promise.resolve(x).then(res): the thenable resolves one tick later
                body.append(('expr', ('then', ('resolve', self.val(deep=False)), ('arg', 0), ('arg', 1))))
            if self.r.random() < 0.3:
                body.append(('return', self.val(deep=False)))
            return body
        return self.new_fun(False, mk)

    def getter_fn(self):
        def mk():
            body = [('print', self.label(), ('undef',))]
            k = self.pick([(5, 'fun'), (1, 'num'), (1, 'throw')])
            if k == 'fun':
                body.append(('return', ('fun', self.thenable_fn())))
            elif k == 'num':
                body.append(('return', ('num', 5)))
            else:
                body.append(('throw', ('num', self.r.randrange(100))))
            return body
        return self.new_fun(False, mk)

    def async_fn(self, register=True):
        def mk():
            self.feat.add('async')
            body = [('print', self.label(), ('arg', 0))]
            n = self.r.choice([1, 1, 2, 2, 3])
            for _ in range(n):
                if not self.room():
                    break
                x = self.fresh()
                v = self.val(True)
                if v[0] in ('thenable', 'getter'):
                    self.feat.add('await-thenable')
                elif v[0] in ('num', 'undef', 'obj'):
                    self.feat.add('await-nonpromise')
                else:
                    self.feat.add('await-promise')
                aw = [('await', x, v), ('print', self.label(), ('var', x))]
                if self.r.random() < 0.3:
                    self.feat.add('await-in-try')
                    y = self.fresh()
                    body.append(('try', aw, y, [('print', self.label(), ('var', y))]))
                else:
                    body += aw
            return body + self.ending()
        idx = self.new_fun(True, mk)
        if register:
            self.asyncs.append(idx)
        return idx

    # -- async generators
    def agen_fn(self):
        """async function* fN(a, b) { print; yields / awaits / try-catch; return / throw / fall off }"""
        def yval():
            v = self.val(True)
            if v[0] in ('thenable', 'getter'):
                self.feat.add('agen-yield-thenable')
            elif v[0] == 'reject':
                self.feat.add('agen-yield-rejected')
            elif v[0] in ('resolve', 'var', 'call', 'next'):
                self.feat.add('agen-yield-promise')
            return v

        has_star = [False]

        def mk():
            self.feat.add('agen')
            body = [('print', self.label(), ('arg', 0))]
            lead_star = bool(self.agens) and self.r.random() < 0.35      # delegate first: requests that queue up are forwarded
            for n in range(self.r.choice([1, 2, 2, 3, 4])):
                if not self.room():
                    break
                k = self.pick([(5, 'yield'), (3, 'xyield'), (2, 'await'), (1.5, 'try'), (1, 'print'), (2 if self.agens else 0, 'ystar')])
                if n == 0 and lead_star:
                    k = 'ystar'
                if k == 'ystar':
                    # delegate to an object of an async generator function defined earlier (no recursion)
                    self.feat.add('agen-yield*')
                    has_star[0] = True
                    x = self.fresh()
                    src = ('call', ('fun', self.r.choice(self.agens)), self.val(True, deep=False))
                    if self.edge and self.r.random() < 0.3:
                        src = self.r.choice([('num', 3), ('resolve', ('num', 1)), ('undef',)])      # not iterable
                    body += [('yieldstar', x, src), ('print', self.label(), ('var', x))]
                elif k == 'yield':
                    body.append(('yield', self.fresh(), yval()))
                elif k == 'xyield':
                    x = self.fresh()
                    body += [('yield', x, yval()), ('print', self.label(), ('var', x))]
                elif k == 'await':
                    self.feat.add('agen-await')
                    x = self.fresh()
                    body += [('await', x, self.val(True)), ('print', self.label(), ('var', x))]
                elif k == 'try':
                    self.feat.add('agen-try')
                    x, y = self.fresh(), self.fresh()
                    inner = [('yield', x, yval()), ('print', self.label(), ('var', x))]
                    if self.r.random() < 0.4:
                        inner.append(('yield', self.fresh(), yval()))
                    body.append(('try', inner, y, [('print', self.label(), ('var', y))]))
                else:
                    body.append(('print', self.label(), ('undef',)))
            e = self.pick([(2.5, 'ret'), (3, 'retp'), (1, 'throw'), (2.5, 'none')])
            if e == 'ret':
                body.append(('return', ('num', self.r.randrange(100))))
            elif e == 'retp':
                self.feat.add('agen-return-promise')
                body.append(('return', self.val(True)))
            elif e == 'throw':
                body.append(('throw', self.val(True, deep=False)))
            return body
        idx = self.new_fun('agen', mk)
        self.agens.append(idx)
        if has_star[0]:
            self.star_fns.add(idx)
        return idx

    def gen_request(self, infun=False):
        """(vG).next(v) / .return(v) / .throw(v): a promise expression"""
        g = self.r.choice(self.gens)
        star = self.gen_fn.get(g) in self.star_fns
        # a return / throw that arrives while the generator delegates is forwarded to the inner generator
        rk = self.pick([(7, 'next'), (4 if star else 1.5, 'return'), (2 if star else 1, 'throw')])
        self.feat.add('agen-' + rk)
        if star and rk != 'next':
            self.feat.add('agen-yield*-' + rk)
        if rk == 'return':
            v = self.val(infun)           # return(promise / thenable) is awaited
        else:
            v = self.val(infun, deep=False)
        return ('next', rk, ('var', g), v)

    def agen_consumer(self):
        """async function that awaits successive next() results of a global generator variable (what for-await does)"""
        g = self.r.choice(self.gens)

        def mk():
            self.feat.add('agen-consumer')
            body = [('print', self.label(), ('arg', 0))]
            for _ in range(self.r.choice([1, 2, 3])):
                if not self.room():
                    break
                x = self.fresh()
                body += [('await', x, ('next', 'next', ('var', g), ('arg', 0))), ('print', self.label(), ('var', x))]
            return body
        return self.new_fun(True, mk)

    def forawait_consumer(self):
        """async function f(a, b) { [try {] for await (vX of <generator>) { print; [await]; [throw] } print [} catch ...] }"""
        if self.gens and self.r.random() < 0.5:
            src = ('var', self.r.choice(self.gens))        # shared with other consumers / manual requests
        else:
            src = ('call', ('fun', self.r.choice(self.agens)), ('arg', 0))
        if self.edge and self.r.random() < 0.3:
            src = self.r.choice([('num', 3), ('resolve', ('num', 1)), ('undef',), ('thenable', self.thenable_fn())])

        def mk():
            self.feat.add('agen-for-await')
            x, git = self.fresh(), self.fresh()
            body = [('print', self.label(), ('var', x))]
            if self.r.random() < 0.4:
                y = self.fresh()
                body += [('await', y, self.val(True)), ('print', self.label(), ('var', y))]
            if self.r.random() < 0.4:
                self.feat.add('agen-for-await-throw')
                body.append(('throw', self.val(True, deep=False)))
            loop = [('forawait', x, git, src, body), ('print', self.label(), ('undef',))]
            out = [('print', self.label(), ('arg', 0))]
            if self.r.random() < 0.5:
                y = self.fresh()
                out.append(('try', loop, y, [('print', self.label(), ('var', y))]))
            else:
                out += loop
            return out
        return self.new_fun(True, mk)

    # -- promise expressions
    def prom_expr(self, infun=False):
        """a native-promise expression; about a quarter get a non-standard `constructor` (PromiseResolve and
        SpeciesConstructor read it: in await, yield, return, Promise.resolve, then / finally, the combinators, thenable jobs)"""
        e = self.prom_expr0(infun)
        if self.r.random() < 0.27 and self.room():
            k = self.pick([(3, ('get', 0)), (2.5, ('get', 1)), (0.6, ('get', 2)), (1, ('data', 0)), (0.7, ('data', 1)),
                           (1.5, ('data', 2)), (1, ('data', 3)), (0.5, ('data', 4))])
            if k[0] == 'get':
                self.feat.add('ctor-getter')
                self.feat.add('ctor-getter-' + ('promise', 'other', 'throws')[k[1]])
                e = ('patch', ('get', self.label(), k[1]), e)
            else:
                self.feat.add('ctor-data')
                self.feat.add('ctor-data-' + ('promise', 'sub', 'other', 'undefined', 'number')[k[1]])
                e = ('patch', k, e)
        return e

    def exotic(self):
        """a settled promise whose `constructor` is not the plain %Promise% lookup: Sub instance and / or own property"""
        n = ('num', self.r.randrange(100))
        base = self.pick([(3, ('resolve', n)), (2, ('subresolve', n)), (1, ('reject', n))])
        if base[0] == 'subresolve':
            self.feat.add('promise-subclass')
        if base[0] == 'reject':
            self.feat.add('reject')
        if base[0] != 'subresolve' or self.r.random() < 0.4:
            k = self.pick([(3, ('get', 0)), (2.5, ('get', 1)), (0.5, ('get', 2)), (0.7, ('data', 0)), (0.7, ('data', 1)),
                           (1.5, ('data', 2)), (1, ('data', 3)), (0.4, ('data', 4))])
            if k[0] == 'get':
                self.feat.add('ctor-getter')
                self.feat.add('ctor-getter-' + ('promise', 'other', 'throws')[k[1]])
                return ('patch', ('get', self.label(), k[1]), base)
            self.feat.add('ctor-data')
            self.feat.add('ctor-data-' + ('promise', 'sub', 'other', 'undefined', 'number')[k[1]])
            return ('patch', k, base)
        return base

    def prom_expr0(self, infun=False):
        opts = [(3, 'resolve'), (1.5, 'reject'), (2, 'new'), (1.3, 'subresolve'), (0.7, 'subnew')]
        if self.proms:
            opts.append((4, 'var'))
        if self.asyncs:
            opts.append((2, 'acall'))
        if self.gens:
            opts.append((3, 'gnext'))
        if self.depth < 2 and self.room():
            opts.append((1.5, 'comb'))
        k = self.pick(opts)
        if k == 'subresolve':
            self.feat.add('promise-subclass')
            return ('subresolve', self.val(infun))
        if k == 'subnew':
            self.feat.add('promise-subclass')
            return ('subnew', self.executor())
        if k == 'gnext':
            return self.gen_request(infun)
        if k == 'resolve':
            return ('resolve', self.val(infun))
        if k == 'reject':
            self.feat.add('reject')
            return ('reject', self.val(infun, deep=False))
        if k == 'new':
            self.feat.add('new-promise')
            return ('new', self.executor())
        if k == 'var':
            return ('var', self.r.choice(self.proms))
        if k == 'acall':
            self.feat.add('async-call')
            return ('call', ('fun', self.r.choice(self.asyncs)), self.val(infun, deep=False))
        return self.comb(infun)

    def comb(self, infun=False):
        kind = self.r.choice(['all', 'race', 'allSettled', 'any'])
        self.feat.add('comb-' + kind)
        n = self.pick([(1, 0), (2, 1), (4, 2), (4, 3), (1, 4)]) if self.edge else self.r.choice([1, 2, 2, 3, 3])
        elems = []
        for _ in range(n):
            k = self.pick([(4, 'prom'), (2, 'val')])
            if k == 'prom' and self.proms:
                elems.append(('var', self.r.choice(self.proms)))
            else:
                elems.append(self.val(infun))
        return ('comb', kind, elems)

    def handler(self, allow_hang):
        """an argument of then/catch: mostly a callback, sometimes undefined / a non-callable"""
        k = self.pick([(8, 'cb'), (1.5, 'undef'), (0.7, 'async'), (0.3 if self.edge else 0, 'num')])
        if k == 'cb':
            return ('fun', self.callback(allow_hang))
        if k == 'async' and self.room():
            return ('fun', self.async_callback())
        if k == 'num':
            return ('num', 3)
        return ('undef',)

    def chain(self, base, infun=False, maxlen=3):
        """base.then(..).catch(..).finally(..) ... ; base is a native-promise expression"""
        e = base
        for _ in range(self.r.randrange(1, maxlen + 1)):
            if not self.room():
                break
            k = self.pick([(6, 'then'), (2, 'then2'), (1.5, 'catch'), (1.5, 'finally')])
            if k == 'then':
                e = ('then', e, self.handler(True), ('undef',))
            elif k == 'then2':
                e = ('then', e, self.handler(True), self.handler(False))
            elif k == 'catch':
                self.feat.add('catch')
                e = ('catch', e, self.handler(False))
            else:
                self.feat.add('finally')
                f = ('fun', self.finally_cb()) if self.r.random() < 0.9 else ('undef',)
                e = ('finally', e, f)
        return e

    # -- main
    def main_stmt_forced(self, kind):
        return self.main_stmt(kind)

    def main_stmt(self, force=None):
        opts = [(4, 'chain'), (3, 'letp'), (1, 'print')]
        if self.asyncs:
            opts.append((2.5, 'acall'))
        if self.resolvers:
            opts.append((2, 'resolve-later'))
        if len(self.proms) >= 2:
            opts.append((2, 'comb'))
            opts.append((1.5, 'race-chains'))
        if self.edge:
            opts += [(1, 'illtyped'), (0.7, 'self-resolve'), (0.7, 'try-throw')]
        if self.room():
            opts.append((1.2, 'ticks'))
        if self.agens:
            opts.append((9 if not self.gens else 1, 'agen-new'))
        if self.gens:
            opts += [(4, 'agen-req'), (2.5, 'agen-burst'), (1.5, 'agen-consumer')]
        if any(self.gen_fn.get(g) in self.star_fns for g in self.gens):
            opts.append((3, 'agen-star-return'))
        if self.agens and self.room():
            opts.append((2.5, 'agen-forawait'))
        k = force or self.pick(opts)
        if k == 'ticks':
            # a plain tick chain: one print per microtask turn, so that the tick count of everything else is visible
            self.feat.add('tick-chain')
            e = ('resolve', ('undef',))
            for _ in range(self.r.choice([3, 4, 5, 6])):
                if not self.room():
                    break
                e = ('then', e, ('fun', self.new_fun(False, lambda: [('print', self.label(), ('undef',))])), ('undef',))
            return [('expr', e)]
        if k == 'agen-new':
            x = self.fresh()
            fn = self.r.choice(sorted(self.star_fns)) if self.star_fns and self.r.random() < 0.5 else self.r.choice(self.agens)
            self.gens.append(x)
            self.gen_fn[x] = fn
            return [('let', x, ('call', ('fun', fn), self.val(deep=False)))]
        if k == 'agen-star-return':
            # next() then return()/throw() on a delegating generator: the second request is forwarded to the inner one
            g = self.r.choice([g for g in self.gens if self.gen_fn.get(g) in self.star_fns])
            rk = self.r.choice(['return', 'return', 'throw'])
            self.feat.add('agen-' + rk)
            self.feat.add('agen-yield*-' + rk)
            v = self.val() if rk == 'return' else self.val(deep=False)
            out = [('expr', ('then', ('next', 'next', ('var', g), self.val(deep=False)), self.handler(False), self.handler(False))),
                   ('expr', ('then', ('next', rk, ('var', g), v), self.handler(False), self.handler(False)))]
            if self.r.random() < 0.4:
                out.append(('expr', ('then', ('next', 'next', ('var', g), ('undef',)), self.handler(False), self.handler(False))))
            return out
        if k == 'agen-req':
            return [('expr', self.chain(self.gen_request(), maxlen=2))]
        if k == 'agen-burst':
            # several requests while the generator is still busy: they queue up
            self.feat.add('agen-burst')
            return [('expr', ('then', self.gen_request(), self.handler(False), self.handler(False)))
                    for _ in range(self.r.choice([2, 3, 4])) if self.room()]
        if k == 'agen-forawait':
            f = self.forawait_consumer()
            x = self.fresh()
            self.proms.append(x)
            return [('let', x, ('call', ('fun', f), ('num', self.r.randrange(100))))]
        if k == 'agen-consumer':
            f = self.agen_consumer()
            x = self.fresh()
            self.proms.append(x)
            return [('let', x, ('call', ('fun', f), ('num', self.r.randrange(100))))]
        if k == 'chain':
            return [('expr', self.chain(self.prom_expr()))]
        if k == 'letp':
            x = self.fresh()
            e = self.prom_expr()
            if self.r.random() < 0.5:
                e = self.chain(e, maxlen=2)
            self.proms.append(x)
            return [('let', x, e)]
        if k == 'print':
            return [('print', self.label(), self.val(deep=False))]
        if k == 'acall':
            self.feat.add('async-call')
            x = self.fresh()
            st = ('let', x, ('call', ('fun', self.r.choice(self.asyncs)), self.val(deep=False)))
            self.proms.append(x)
            return [st]
        if k == 'resolve-later':
            return [('expr', ('call', ('var', self.r.choice(self.resolvers)), self.val()))]
        if k == 'comb':
            x = self.fresh()
            e = self.chain(self.comb(), maxlen=1)
            self.proms.append(x)
            return [('let', x, e)]
        if k == 'race-chains':
            # two independent chains whose relative order is printed
            self.feat.add('racing-chains')
            a, b = self.r.sample(self.proms, 2)
            return [('expr', self.chain(('var', a), maxlen=2)), ('expr', self.chain(('var', b), maxlen=2))]
        if k == 'illtyped':
            self.feat.add('ill-typed')
            kk = self.r.choice(['then-on-num', 'call-nonfun', 'catch-on-thenable', 'then-on-thenable', 'next-on-nongen'])
            y = self.fresh()
            if kk == 'then-on-num':
                bad = ('then', ('num', 1), ('fun', self.callback()), ('undef',))
            elif kk == 'call-nonfun':
                bad = ('call', ('num', 2), ('undef',))
            elif kk == 'next-on-nongen':
                bad = ('next', 'next', self.r.choice([('num', 4), ('resolve', ('num', 1)), ('obj',)]), ('num', 1))
            elif kk == 'catch-on-thenable':
                bad = ('catch', ('thenable', self.thenable_fn()), ('fun', self.callback()))
            else:
                bad = ('then', ('thenable', self.thenable_fn()), ('fun', self.callback()), ('fun', self.callback()))
            return [('try', [('expr', bad)], y, [('print', self.label(), ('var', y))])]
        if k == 'self-resolve':
            self.feat.add('self-resolution')
            x = self.fresh()
            f = self.new_fun(False, lambda: [('print', self.label(), ('arg', 0)), ('return', ('var', x))])
            self.proms.append(x)
            return [('let', x, ('then', self.prom_expr(), ('fun', f), ('undef',)))]
        if k == 'try-throw':
            y = self.fresh()
            return [('try', [('print', self.label(), ('undef',)), ('throw', self.val(deep=False))], y, [('print', self.label(), ('var', y))])]
        raise AssertionError(k)

    def program(self):
        # a few async functions first so that everything can call them
        for _ in range(self.r.choice([0, 1, 1, 2])):
            self.async_fn()
        for _ in range(self.r.choice([0, 0, 0, 1, 2, 2, 3])):
            self.agen_fn()
        main = []
        for _ in range(self.size):
            if not self.room():
                break
            main += self.main_stmt()
        if self.agens and not self.gens and self.room():
            main += self.main_stmt_forced('agen-new')
            for _ in range(self.r.choice([1, 2, 3])):
                if self.room():
                    main += self.main_stmt_forced(self.r.choice(['agen-req', 'agen-burst']))
        if self.hang and not self.hang_placed:
            main.append(('expr', ('then', ('resolve', ('num', 1)), ('fun', self.callback(True)), ('undef',))))
            # something queued behind it that must be dropped
            main.append(('expr', ('then', ('resolve', ('num', 2)), ('fun', self.callback()), ('undef',))))
        main.append(('print', self.label(), ('undef',)))
        if self.edge and self.r.random() < 0.2:
            self.feat.add('top-level-throw')
            main.append(('throw', ('num', 77)))
        return {'funs': self.funs, 'main': main, 'nvars': self.nvars, 'hang': self.hang_placed,
                'features': sorted(self.feat), 'prints': self.prints, 'edge': self.edge}


def generate(rng, **kw):
    return Gen(rng, **kw).program()


# ------------------------------------------------------------------------------------------------
# shrinking (delta debugging on main statements and function bodies)

def shrink(p, still_fails, max_steps=200):
    """Greedy: drop main statements, then statements of function bodies, while `still_fails(prog)`."""
    import copy
    cur = copy.deepcopy(p)
    steps = 0
    changed = True
    while changed and steps < max_steps:
        changed = False
        for i in range(len(cur['main']) - 1, -1, -1):
            cand = copy.deepcopy(cur)
            del cand['main'][i]
            steps += 1
            if cand['main'] and still_fails(cand):
                cur = cand
                changed = True
        for fi, f in enumerate(cur['funs']):
            for i in range(len(f['body']) - 1, -1, -1):
                cand = copy.deepcopy(cur)
                del cand['funs'][fi]['body'][i]
                steps += 1
                if still_fails(cand):
                    cur = cand
                    changed = True
            if steps > max_steps:
                break
    return cur
