"""C08: reader of CodeBlock::verif_dump() text and CFG construction (successor rule), plus the untrusted
ranking (topological sort with the cut nodes' outgoing edges removed) for the certified check.

Successor rule (over-approximating; more edges can only make the certified check reject):
  * fall-through to the next instruction unless the opcode is in NOFALL (unconditional transfer / always throws)
  * every `Address(n)` operand printed by the Debug text of the decoded instruction (jumps, JumpTable, TemplateLookup)
  * exception edges: for every handler whose range [start,end) meets [pc, next] (own throw looks up next-1,
    a throw coming out of a callee looks up next) an edge to the landing address `end`
Cut kinds: 'counter' = IncrementLoopIteration; 'suspend' = GeneratorYield/AsyncGeneratorYield/Await (the activation
returns control to its resumer); 'iterpop' = IteratorReturn (pops one entry of the frame's iterator stack).
"""
import re

NOFALL = {"Jump", "Return", "Throw", "ReThrow", "ThrowNewTypeError", "ThrowNewReferenceError", "ThrowNewSyntaxError",
          "ThrowMutateImmutable"}
SUSPEND = {"GeneratorYield", "AsyncGeneratorYield", "Await"}
COUNTER = "IncrementLoopIteration"
ITERPOP = {"IteratorReturn"}
ADDR = re.compile(r"Address\((\d+)\)")


class Block:
    def __init__(self, bid, header):
        self.id = bid
        self.header = header
        self.handlers = []   # (start, end, envcount)
        self.ins = []        # (pc, next, opbyte, name, debug)
        self.bindings = []   # names
        self.name = header.get("name", "")


def parse_dump(lines):
    """lines: the dump text split in lines.  Returns list of Block."""
    blocks, cur = [], None
    for l in lines:
        p = l.split(" ")
        if p[0] == "block":
            hdr = {}
            for kv in p[2:]:
                if "=" in kv:
                    k, v = kv.split("=", 1)
                    hdr[k] = v
            cur = Block(int(p[1]), hdr)
            blocks.append(cur)
        elif cur is None:
            continue
        elif p[0] == "binding":
            cur.bindings.append(p[-1])
        elif p[0] == "handler":
            cur.handlers.append((int(p[2]), int(p[3]), int(p[4])))
        elif p[0] == "ins":
            dbg = " ".join(p[4:])
            name = re.match(r"[A-Za-z0-9_]+", dbg).group(0)
            cur.ins.append((int(p[1]), int(p[2]), int(p[3]), name, dbg))
        elif p[0] == "end":
            cur = None
    return blocks


def build_cfg(block, cut_kinds=("counter", "suspend", "iterpop")):
    """Returns (nodes, problems): nodes = list of dict(pc, name, kind, cut, succ=[vertex index...])."""
    index = {ins[0]: i for i, ins in enumerate(block.ins)}
    n = len(block.ins)
    nodes, problems = [], []
    for i, (pc, nxt, op, name, dbg) in enumerate(block.ins):
        succ = []
        if name not in NOFALL:
            if nxt in index:
                succ.append(index[nxt])
            # falling off the end of the bytecode: the run loop exits (no vertex)
        for a in ADDR.findall(dbg):
            a = int(a)
            if a in index:
                succ.append(index[a])
            else:
                problems.append("jump target %d of pc %d is not an instruction boundary" % (a, pc))
        for (hs, he, _) in block.handlers:
            if hs <= nxt and pc < he:     # [hs,he) meets [pc,nxt]
                if he in index:
                    succ.append(index[he])
                else:
                    problems.append("handler landing %d is not an instruction boundary" % he)
        kind = "counter" if name == COUNTER else "suspend" if name in SUSPEND else "iterpop" if name in ITERPOP else "plain"
        out, seen = [], set()
        for s in succ:
            if s not in seen:
                seen.add(s)
                out.append(s)
        nodes.append({"pc": pc, "name": name, "kind": kind, "cut": kind in cut_kinds, "succ": out})
    return nodes, problems


def ranking(nodes):
    """Untrusted: topological order of the graph without the cut nodes' outgoing edges.  Returns (ranks, cycle)
    where cycle is a list of vertices on a cut-free cycle if no ranking exists (ranks then still returned, useless)."""
    n = len(nodes)
    indeg = [0] * n
    for i, nd in enumerate(nodes):
        if nd["cut"]:
            continue
        for s in nd["succ"]:
            indeg[s] += 1
    order, stack = [], [i for i in range(n) if indeg[i] == 0]
    while stack:
        i = stack.pop()
        order.append(i)
        if nodes[i]["cut"]:
            continue
        for s in nodes[i]["succ"]:
            indeg[s] -= 1
            if indeg[s] == 0:
                stack.append(s)
    ranks = [0] * n
    for k, i in enumerate(order):
        ranks[i] = k
    if len(order) == n:
        return ranks, None
    # find a cycle among the remaining vertices
    rem = set(range(n)) - set(order)
    start = min(rem)
    path, pos, cur = [], {}, start
    while cur not in pos:
        pos[cur] = len(path)
        path.append(cur)
        nxt = [s for s in nodes[cur]["succ"] if s in rem and not nodes[cur]["cut"]]
        if not nxt:
            # dead end inside rem (should not happen); restart from another vertex
            rem.discard(cur)
            if not rem:
                return ranks, path
            cur = min(rem)
            path, pos = [], {}
            continue
        cur = nxt[0]
    return ranks, path[pos[cur]:]


def wire(nodes, ranks):
    """Line payload for the OCaml driver: '<nodes> <ranks>'."""
    ns = ";".join(("1" if nd["cut"] else "0") + ":" + ",".join(str(s) for s in nd["succ"]) for nd in nodes)
    return ns + " " + ",".join(str(r) for r in ranks)
