"""C17 property oracle: checks the statement of C17 on a result line of harness `modops`, using only the graph
description (independent of the Coq model and of boa).  Also: result parsing and failure classification.

Checked per case (ops in order, state carried across ops):
  panic      no op may panic the engine
  pending    after the job queue drained the promise is settled
  twice      every body starts at most once and ends at most once (after its start), over the whole case
  deps-first when m's body starts, every module reachable through a request r of m that cannot reach m back
             has ended
  order      graphs without top-level await: the trace of every op equals the depth-first post-order following the
             request lists (aborted at the first throwing body)
  outcome    load error (TypeError) / link error (SyntaxError) / rejection with the error of a reachable throwing
             module (the exact one for sync graphs) / fulfilled otherwise; a fulfilled op has all its dependencies ended
  read       live bindings: every value printed equals the exporter's current phase as implied by the trace so far
  rerun      an op on an already evaluated module prints nothing and loads nothing
  loads      every loader call is a real (referrer, specifier) edge; no edge is requested twice unless its target is missing
"""
import re

import c17_graphs as G


def parse_result(line):
    ops = []
    if line.startswith("X-outer") or line.startswith("bad-") or line.startswith("parse-error"):
        return None
    for part in line.split(";"):
        m = re.match(r"([LPEJ])(\d*)=(.*?)~(.*?)~(.*)$", part)
        if not m:
            return None
        trace = [t for t in m.group(4).split(",") if t]
        loads = []
        for l in m.group(5).split(","):
            if l:
                a, b = l.split(">")
                loads.append((int(a[1:]), int(b[1:])))
        ops.append({"kind": m.group(1), "k": int(m.group(2) or 0), "state": m.group(3), "trace": trace, "loads": loads})
    return ops


def opname(o):
    return o["kind"] + (str(o["k"]) if o["kind"] != "J" else "")


PANIC_TAGS = [
    (r"error\.is_some\(\)", "assert-error-is-some"),
    (r"m\.\[\[Status\]\] is evaluating-async", "gather-not-async"),
    (r"pending_async_dependencies > 0", "gather-pending-zero"),
    (r"m\.\[\[Status\]\] is linking", "link-not-linking"),
    (r"module\.\[\[Status\]\] is one of linked, evaluating-async, or evaluated", "assert-linked-or-evaluated"),
]
# places of the model (POther n) that stand for the same Rust message
MODEL_TAG_ALIAS = {"X:other-44": "X:assert-linked-or-evaluated", "X:other-54": "X:assert-linked-or-evaluated"}


def canon_model(line):
    for a, b in MODEL_TAG_ALIAS.items():
        line = line.replace(a + "~", b + "~")
    return line



def canon_state(st):
    """Panic messages -> the tags the model prints."""
    if st.startswith("X:"):
        for rx, tag in PANIC_TAGS:
            if re.search(rx, st):
                return "X:" + tag
        return "X:other(" + st[2:80] + ")"
    return st


def canon_result(line):
    ops = parse_result(line)
    if ops is None:
        return line
    return ";".join("%s=%s~%s~%s" % (opname(o), canon_state(o["state"]), ",".join(o["trace"]),
                                      ",".join("m%d>m%d" % l for l in o["loads"])) for o in ops)


def sorted_loads_result(line):
    ops = parse_result(line)
    if ops is None:
        return line
    return ";".join("%s=%s~%s~%s" % (opname(o), canon_state(o["state"]), ",".join(o["trace"]),
                                      ",".join("m%d>m%d" % l for l in sorted(o["loads"]))) for o in ops)


def read_targets(mod):
    out = []
    for (k, t, u) in mod["decls"]:
        if k in ("n", "s"):
            out.append(t)
        elif k == "r":
            out.append(u)
    return out


def check(case, line):
    """Returns the list of failures [(kind, detail)] of the property on this result line."""
    f = G.facts(case)
    mods, n = case["mods"], f["n"]
    ops = parse_result(line)
    if ops is None:
        return [("panic", "harness: " + line[:200])]
    if any(o["kind"] != "L" for o in ops):
        return check_split(case, f, ops)
    fails = []
    closure = [f["reach"][m] | {m} for m in range(n)]
    is_let = ["l" in m["flags"] for m in mods]
    started, ended = {}, {}
    clock = 0
    status = {}            # sync reference: m -> None (evaluated ok) | error string
    unknown = set()        # modules touched by an op whose graph has top-level await: no exact expectation afterwards
    requested = set()
    for oi, o in enumerate(ops):
        e = o["k"]
        st = o["state"]
        if e >= n:
            continue
        if st.startswith("X:"):
            fails.append(("panic", st[2:160]))
            break
        cl = closure[e]
        was_done = e in status or e in ended
        sync = not any(f["tla"][m] for m in cl) and not (cl & unknown)
        # ---- loads
        for (a, b) in o["loads"]:
            if a >= n or b not in G.requests(mods[a]):
                fails.append(("loads", "op %d: loader call m%d>m%d is not an edge" % (oi, a, b)))
            elif (a, b) in requested and b < n:
                fails.append(("loads", "op %d: edge m%d>m%d requested twice" % (oi, a, b)))
            requested.add((a, b))
        # ---- trace: at most once, deps first, live bindings
        for item in o["trace"]:
            mm = re.match(r"(start|end):m(\d+):(.*)$", item)
            if not mm:
                fails.append(("order", "unparsable trace item " + item))
                continue
            what, m, reads = mm.group(1), int(mm.group(2)), mm.group(3)
            clock += 1
            if what == "start":
                if m in started:
                    fails.append(("twice", "m%d starts twice" % m))
                for r in f["req"][m]:
                    if m in closure[r]:
                        continue            # r is in m's cycle
                    for d in closure[r]:
                        if d not in ended:
                            fails.append(("deps-first", "m%d starts before its dependency m%d has finished" % (m, d)))
                            break
                started[m] = clock
            else:
                if m not in started or m in ended:
                    fails.append(("twice", "m%d ends without a start / twice" % m))
                ended[m] = clock
            targets = read_targets(mods[m])
            if len(reads) != len(targets):
                fails.append(("read", "%s: %d values for %d reads" % (item, len(reads), len(targets))))
            else:
                for t, c in zip(targets, reads):
                    if t == m and what == "start":
                        exp = "!" if is_let[t] else "u"
                    elif t in ended:
                        exp = "2"
                    elif t in started:
                        exp = "1"
                    else:
                        exp = "!" if (t < n and is_let[t]) else "u"
                    if c != exp:
                        fails.append(("read", "%s: binding of m%d reads %s, expected %s" % (item, t, c, exp)))
        # ---- outcome
        if any(f["missing"][m] for m in cl):
            if st != "R:TypeError" or o["trace"]:
                fails.append(("outcome", "op %d: expected load error (TypeError), got %s" % (oi, st)))
            continue
        if any(f["linkerr"][m] for m in cl):
            if st != "R:SyntaxError" or o["trace"]:
                fails.append(("outcome", "op %d: expected link error (SyntaxError), got %s" % (oi, st)))
            continue
        if st == "P":
            fails.append(("pending", "op %d: promise of m%d never settles" % (oi, e)))
        throwers = [t for t in cl if f["throws"][t]]
        if not throwers:
            if st not in ("F", "P"):
                fails.append(("outcome", "op %d: expected fulfilled, got %s" % (oi, st)))
            if st == "F":
                for d in cl:
                    if d not in ended:
                        fails.append(("outcome", "op %d: fulfilled although m%d has not finished" % (oi, d)))
                        break
        else:
            ok = any(st == "R:Error(m%d)" % t for t in throwers)
            if not ok and st != "P":
                fails.append(("outcome", "op %d: expected rejection by one of %s, got %s" % (oi, throwers, st)))
        if was_done and (o["trace"] or o["loads"]):
            fails.append(("rerun", "op %d: m%d was already evaluated but the op printed/loaded %s %s" % (oi, e, o["trace"], o["loads"])))
        # ---- exact reference for graphs without top-level await
        if sync:
            exp_trace, path, finished = [], [], []

            class Abort(Exception):
                pass

            def dfs(m):
                if m in status:
                    if status[m] is not None:
                        raise Abort((m, status[m]))
                    return
                if m in path or m in finished:
                    return
                path.append(m)
                for r in f["req"][m]:
                    dfs(r)
                exp_trace.append("start:m%d" % m)
                if f["throws"][m]:
                    raise Abort((m, "R:Error(m%d)" % m))
                exp_trace.append("end:m%d" % m)
                path.pop()
                finished.append(m)

            try:
                dfs(e)
                exp_state, src = "F", None
            except Abort as ab:
                src, exp_state = ab.args[0]
            got = [re.sub(r":[^:]*$", "", it) for it in o["trace"]]
            if got != exp_trace:
                fails.append(("order", "op %d: trace %s, depth-first post-order is %s" % (oi, got, exp_trace)))
            if st != exp_state:
                fails.append(("outcome", "op %d: expected %s, got %s" % (oi, exp_state, st)))
            # an error rejects exactly the dependents (among the modules this evaluation entered)
            for m in path + finished:
                if m in status:
                    continue
                status[m] = exp_state if (src is not None and (m == src or src in f["reach"][m])) else None
        else:
            unknown |= cl
    return fails


def check_split(case, f, ops):
    """Cases with P/E/J ops (evaluations pending across Evaluate() calls): no panic; every body at most once; deps-first over
    the whole history; after the last J every evaluation promise is settled (throw-free, link-error-free cases: fulfilled)."""
    n = f["n"]
    fails = []
    closure = [f["reach"][m] | {m} for m in range(n)]
    started, ended = set(), set()
    entered, eval_first = set(), []
    clean = not any(f["throws"]) and not any(f["missing"]) and not any(f["linkerr"])
    for oi, o in enumerate(ops):
        if o["state"].startswith("X:"):
            fails.append(("panic", o["state"][2:160]))
            break
        for item in o["trace"]:
            mm = re.match(r"(start|end):m(\d+):(.*)$", item)
            if not mm:
                fails.append(("order", "unparsable trace item " + item))
                continue
            what, m = mm.group(1), int(mm.group(2))
            if what == "start":
                if m in started:
                    fails.append(("twice", "m%d starts twice" % m))
                for r in f["req"][m]:
                    if m in closure[r]:
                        continue
                    for d in closure[r]:
                        if d not in ended:
                            fails.append(("deps-first", "m%d starts before its dependency m%d has finished" % (m, d)))
                            break
                started.add(m)
            else:
                if m not in started or m in ended:
                    fails.append(("twice", "m%d ends without a start / twice" % m))
                ended.add(m)
        if o["kind"] == "E":
            # Evaluate() on a module that an earlier, still pending evaluation has already entered returns a fresh promise
            # that the engine never settles (its capability is dropped: recorded deviation of SourceTextModule::evaluate,
            # modelled in Modules.evaluate); only first entries are held to "settles"
            eval_first.append(o["k"] not in entered)
            entered |= closure[o["k"]] if o["k"] < n else set()
        if o["kind"] == "J" and clean:
            sts = [x for x in o["state"].split("/") if x]
            for first, x in zip(eval_first, sts):
                if first and x != "F":
                    fails.append(("pending" if x == "P" else "outcome",
                                  "op %d: evaluation promises after the drain: %s (first entries must be fulfilled)" % (oi, o["state"])))
                    break
    return fails


# ------------------------------------------------------------------------------------------------
# classification: a label computed from the failing case itself

PRIORITY = ["panic", "pending", "deps-first", "twice", "order", "outcome", "rerun", "loads", "read"]


def structural(case):
    f = G.facts(case)
    n = f["n"]
    closure = [f["reach"][m] | {m} for m in range(n)]
    multi_cycle = [m for m in range(n) if any(x != m and m in f["reach"][x] for x in f["reach"][m])]
    tla_under_cycle = any(f["tla"][d] for m in multi_cycle for d in closure[m])
    sync_thrower_over_async = any(f["throws"][m] and not f["tla"][m] and any(f["tla"][d] for d in f["reach"][m]) for m in range(n))
    linkerr_with_cycle = any(f["linkerr"]) and bool(multi_cycle)
    return {"tla_under_cycle": tla_under_cycle, "sync_thrower_over_async": sync_thrower_over_async,
            "linkerr_with_cycle": linkerr_with_cycle, "any_tla": any(f["tla"])}


def classify(case, fails):
    """(class label, primary failure).  A label names the structural situation of the case (a predicate over the
    graph description) and the kind of failure; it never depends on anything but the failing case and its output."""
    if not fails:
        return None, None
    fails = sorted(fails, key=lambda x: PRIORITY.index(x[0]) if x[0] in PRIORITY else 99)
    kind, detail = fails[0]
    s = structural(case)
    if kind == "panic":
        if "error.is_some()" in detail and s["sync_thrower_over_async"]:
            return "async-dep-throwing-importer-panic", fails[0]
        if "is linking" in detail and s["linkerr_with_cycle"]:
            return "link-error-prelinked-cycle-panic", fails[0]
        if "is one of linked, evaluating-async, or evaluated" in detail and s["linkerr_with_cycle"]:
            return "link-error-leaves-cycle-linked", fails[0]
        if s["tla_under_cycle"] and ("evaluating-async" in detail or "pending_async_dependencies" in detail
                                     or "error.is_some()" in detail):
            return "tla-cycle-panic", fails[0]
        return "panic-other", fails[0]
    if kind == "pending":
        return ("tla-cycle-never-settles" if s["tla_under_cycle"] else "pending-other"), fails[0]
    if kind == "read":
        if all(k != "read" or re.search(r"reads !, expected u", d) for (k, d) in fails):
            return "var-export-uninitialized-before-evaluation", fails[0]
        return "stale-binding", fails[0]
    if kind == "outcome" and "expected link error" in detail and s["linkerr_with_cycle"]:
        return "link-error-leaves-cycle-linked", fails[0]
    if s["tla_under_cycle"] and kind in ("deps-first", "order", "outcome", "twice", "rerun"):
        return "tla-cycle-wrong-order", fails[0]
    if s["sync_thrower_over_async"] and kind in ("deps-first", "outcome"):
        # a synchronous importer of an async module threw when run from AsyncModuleExecutionFulfilled, and its own
        # importers ran / fulfilled anyway (GatherAvailableAncestors emptied [[AsyncParentModules]]); on the unrepaired
        # tree this situation panics first (async-dep-throwing-importer-panic)
        return "async-dep-throwing-importer-dependents-not-rejected", fails[0]
    return kind, fails[0]
