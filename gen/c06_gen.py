"""C06 history generator: object/prototype/global mutations interleaved with repeated executions of the same
property access sites.  One history is a list of op tuples; `to_wire` prints the model driver's format,
`to_js` the JavaScript program run by harness/src/bin/icops.rs (see checks/c06.py for the token grammar).

Ops (object names are indices into the program's object table O; 0 = Object.prototype, 1 = globalThis):
  ("A", "s"|"u", proto|None)          O.push(Object.create(p))  |  O.push(__uniq(p))   (shared | unique shape)
  ("D", o, k, desc)                   Reflect.defineProperty(O[o], "p<k>", desc)   desc: dict over v w g s e c
  ("X", o, k)                         Reflect.deleteProperty
  ("P", o, proto|None)                Reflect.setPrototypeOf
  ("E", o)                            Reflect.preventExtensions
  ("Z", o)                            Object.freeze
  ("G", s, k, o)                      site g_<s>_<k>(o) { return o.p<k>; }
  ("S", s, k, o, val)                 site s_<s>_<k>(o, v) { "use strict"; o.p<k> = v; }
  ("N", s, k)                         site n_<s>_<k>() { return p<k>; }           (GetNameGlobal)
  ("M", o)                            dump of the own properties (uncached view)
Values: "u" | "n<int>" | "f<int>" (one of the opaque functions F[i], usable as getter, setter or plain value).
"""

NKEYS = 4
NFUN = 8
NPLAIN = 4     # F[0..3] have no body; F[4..7] may get one (a list of heap operations run on every call)


# ------------------------------------------------------------------------------------------------ wire / JS
def desc_wire(d):
    return " ".join("%s=%s" % (f, (d[f] if f in "vgs" else int(d[f]))) for f in "vwgsec" if f in d)


def to_wire(h):
    out = []
    for op in h:
        t = op[0]
        if t == "B":
            out.append("B %d %s" % (op[1], to_wire([op[2]])))
        elif t == "A":
            out.append("A %s %s" % (op[1], "-" if op[2] is None else op[2]))
        elif t == "D":
            out.append(("D %d %d %s" % (op[1], op[2], desc_wire(op[3]))).rstrip())
        elif t == "X":
            out.append("X %d %d" % (op[1], op[2]))
        elif t == "P":
            out.append("P %d %s" % (op[1], "-" if op[2] is None else op[2]))
        elif t in ("E", "Z", "M"):
            out.append("%s %d" % (t, op[1]))
        elif t == "G":
            out.append("G %d %d %d" % (op[1], op[2], op[3]))
        elif t == "S":
            out.append("S %d %d %d %s" % (op[1], op[2], op[3], op[4]))
        elif t == "N":
            out.append("N %d %d" % (op[1], op[2]))
        elif t == "T":
            out.append("T %d %d %d %d %s" % (op[1], op[2], op[3], op[4], op[5]))
        elif t == "U":
            out.append("U %d %d %d %d" % (op[1], op[2], op[3], op[4]))
        else:
            raise ValueError(op)
    return ";".join(out)


def from_wire(s):
    h = []
    for part in s.split(";"):
        t = part.split()
        if not t:
            continue
        o = lambda x: None if x == "-" else int(x)
        if t[0] == "B":
            h.append(("B", int(t[1]), from_wire(" ".join(t[2:]))[0]))
        elif t[0] == "A":
            h.append(("A", t[1], o(t[2])))
        elif t[0] == "D":
            d = {}
            for f in t[3:]:
                d[f[0]] = f[2:] if f[0] in "vgs" else (f[2:] == "1")
            h.append(("D", int(t[1]), int(t[2]), d))
        elif t[0] == "X":
            h.append(("X", int(t[1]), int(t[2])))
        elif t[0] == "P":
            h.append(("P", int(t[1]), o(t[2])))
        elif t[0] in ("E", "Z", "M"):
            h.append((t[0], int(t[1])))
        elif t[0] == "G":
            h.append(("G", int(t[1]), int(t[2]), int(t[3])))
        elif t[0] == "S":
            h.append(("S", int(t[1]), int(t[2]), int(t[3]), t[4]))
        elif t[0] == "N":
            h.append(("N", int(t[1]), int(t[2])))
        elif t[0] == "T":
            h.append(("T", int(t[1]), int(t[2]), int(t[3]), int(t[4]), t[5]))
        elif t[0] == "U":
            h.append(("U", int(t[1]), int(t[2]), int(t[3]), int(t[4])))
    return h


def js_val(v):
    if v == "u":
        return "undefined"
    if v[0] == "n":
        return v[1:]
    return "F[%s]" % v[1:]


def js_desc(d):
    names = {"v": "value", "w": "writable", "g": "get", "s": "set", "e": "enumerable", "c": "configurable"}
    parts = []
    for f in "vwgsec":
        if f in d:
            parts.append("%s:%s" % (names[f], js_val(d[f]) if f in "vgs" else ("true" if d[f] else "false")))
    return "{" + ",".join(parts) + "}"


PRELUDE = r"""
var O = [Object.prototype, globalThis];
var F = [], FN = new Map(), r;
function fmt(v) { return v === undefined ? "u" : (typeof v === "function" ? "f" + FN.get(v) : "n" + v); }
var BODY = [];
function mkF(i) { var f = function (v) { print("c:" + i + ":" + (arguments.length ? fmt(v) : "-")); if (BODY[i]) BODY[i](); return 1000 + i; }; FN.set(f, i); return f; }
for (var i = 0; i < %d; i++) F.push(mkF(i));
function dump(o) {
  var ks = Reflect.ownKeys(o), out = [];
  for (var j = 0; j < ks.length; j++) {
    var k = ks[j];
    if (typeof k !== "string" || !/^p[0-9]+$/.test(k)) continue;
    var d = Reflect.getOwnPropertyDescriptor(o, k), fl = (d.enumerable ? "1" : "0") + (d.configurable ? "1" : "0");
    if ("value" in d) out.push(k.slice(1) + "=D" + fmt(d.value) + "," + (d.writable ? "1" : "0") + fl);
    else out.push(k.slice(1) + "=A" + fmt(d.get) + "," + fmt(d.set) + "," + fl);
  }
  var pr = Reflect.getPrototypeOf(o);
  return "d:x" + (Reflect.isExtensible(o) ? "1" : "0") + "^" + (pr === null ? "-" : O.indexOf(pr)) + "[" + out.join(",") + "]";
}
function en(e) { return "E:" + (e && e.name); }
""" % NFUN


def body_stmt(op):
    """statement of an accessor body: a heap operation, result ignored"""
    t = op[0]
    if t == "D":
        return "Reflect.defineProperty(O[%d], \"p%d\", %s);" % (op[1], op[2], js_desc(op[3]))
    if t == "X":
        return "Reflect.deleteProperty(O[%d], \"p%d\");" % (op[1], op[2])
    if t == "P":
        return "Reflect.setPrototypeOf(O[%d], %s);" % (op[1], "null" if op[2] is None else "O[%d]" % op[2])
    if t == "E":
        return "Reflect.preventExtensions(O[%d]);" % op[1]
    raise ValueError(op)


def plain_ops(h):
    """the operations of a history without the body declarations (what op indices refer to)"""
    return [op for op in h if op[0] != "B"]


def to_js(h):
    sites = []
    for op in h:
        if op[0] == "G" and ("g", op[1], op[2]) not in sites:
            sites.append(("g", op[1], op[2]))
        elif op[0] == "S" and ("s", op[1], op[2]) not in sites:
            sites.append(("s", op[1], op[2]))
        elif op[0] == "N" and ("n", op[1], op[2]) not in sites:
            sites.append(("n", op[1], op[2]))
        elif op[0] == "T" and ("t", op[1], op[2]) not in sites:
            sites.append(("t", op[1], op[2]))
        elif op[0] == "U" and ("u", op[1], op[2]) not in sites:
            sites.append(("u", op[1], op[2]))
    L = [PRELUDE]
    for kd, s, k in sites:
        if kd == "g":
            L.append("function g_%d_%d(o) { return o.p%d; }" % (s, k, k))
        elif kd == "s":
            L.append("function s_%d_%d(o, v) { \"use strict\"; o.p%d = v; }" % (s, k, k))
        elif kd == "n":
            L.append("function n_%d_%d() { return p%d; }" % (s, k, k))
        elif kd == "t":
            # one method = one access site; its home object's prototype (the `super` object) is set before every call
            L.append("var HS_%d_%d = { m(v) { \"use strict\"; super.p%d = v; } };" % (s, k, k))
        else:
            L.append("var HG_%d_%d = { m() { return super.p%d; } };" % (s, k, k))
    bodies = {}
    for op in h:
        if op[0] == "B":
            bodies.setdefault(op[1], []).append(body_stmt(op[2]))
    for f in sorted(bodies):
        L.append("BODY[%d] = function () { %s };" % (f, " ".join(bodies[f])))
    h = [op for op in h if op[0] != "B"]
    L.append("__ev();")
    for i, op in enumerate(h):
        t = op[0]
        if t == "A":
            p = "null" if op[2] is None else "O[%d]" % op[2]
            body = "O.push(%s); r = \"new:\" + (O.length - 1);" % (("Object.create(%s)" % p) if op[1] == "s" else ("__uniq(%s)" % p))
        elif t == "D":
            body = "r = \"b:\" + (Reflect.defineProperty(O[%d], \"p%d\", %s) ? 1 : 0);" % (op[1], op[2], js_desc(op[3]))
        elif t == "X":
            body = "r = \"b:\" + (Reflect.deleteProperty(O[%d], \"p%d\") ? 1 : 0);" % (op[1], op[2])
        elif t == "P":
            body = "r = \"b:\" + (Reflect.setPrototypeOf(O[%d], %s) ? 1 : 0);" % (op[1], "null" if op[2] is None else "O[%d]" % op[2])
        elif t == "E":
            body = "r = \"b:\" + (Reflect.preventExtensions(O[%d]) ? 1 : 0);" % op[1]
        elif t == "Z":
            body = "Object.freeze(O[%d]); r = \"b:1\";" % op[1]
        elif t == "G":
            body = "r = \"v:\" + fmt(g_%d_%d(O[%d]));" % (op[1], op[2], op[3])
        elif t == "S":
            body = "s_%d_%d(O[%d], %s); r = \"b:1\";" % (op[1], op[2], op[3], js_val(op[4]))
        elif t == "N":
            body = "r = \"v:\" + fmt(n_%d_%d());" % (op[1], op[2])
        elif t == "T":
            body = "Object.setPrototypeOf(HS_%d_%d, O[%d]); HS_%d_%d.m.call(O[%d], %s); r = \"b:1\";" % (
                op[1], op[2], op[3], op[1], op[2], op[4], js_val(op[5]))
        elif t == "U":
            body = "Object.setPrototypeOf(HG_%d_%d, O[%d]); r = \"v:\" + fmt(HG_%d_%d.m.call(O[%d]));" % (
                op[1], op[2], op[3], op[1], op[2], op[4])
        elif t == "M":
            body = "r = dump(O[%d]);" % op[1]
        else:
            raise ValueError(op)
        L.append("try { %s } catch (e) { r = en(e); } print(\"#%d \" + r); __ev();" % (body, i))
    return "\n".join(L) + "\n"


# ------------------------------------------------------------------------------------------------ generator
class Gen:
    """Keeps a light abstract view (objects, which keys they probably have, prototypes) so that most ops are
    meaningful; the exact semantics (failures, shadowing, shapes) is left to model and engine."""

    def __init__(self, rng, size):
        self.rng = rng
        self.size = size
        self.h = []
        self.objs = {0: {"keys": set(), "proto": None, "uniq": True}, 1: {"keys": set(), "proto": 0, "uniq": True}}
        self.nsite = {"G": 2, "S": 2, "N": 2}
        self.stats = {}
        self.free_body_fids = list(range(NPLAIN, NFUN))

    def emit(self, op):
        self.h.append(op)
        self.stats[op[0]] = self.stats.get(op[0], 0) + 1

    def val(self):
        r = self.rng.random()
        if r < 0.75:
            return "n%d" % self.rng.randrange(1, 90)
        if r < 0.9:
            return "f%d" % self.rng.randrange(NPLAIN)
        return "u"

    def fn(self):
        return "f%d" % self.rng.randrange(NPLAIN)

    def user_objs(self):
        return [o for o in self.objs if o >= 2]

    def alloc(self, proto="rand", uniq=None):
        if proto == "rand":
            c = [None, None, 0] + self.user_objs()
            proto = self.rng.choice(c)
        if uniq is None:
            uniq = self.rng.random() < 0.25
        oid = len(self.objs)
        self.objs[oid] = {"keys": set(), "proto": proto, "uniq": uniq}
        self.emit(("A", "u" if uniq else "s", proto))
        return oid

    def pick_obj(self, wide=True):
        us = self.user_objs()
        if not us or (wide and self.rng.random() < 0.18):
            return self.rng.choice([0, 1, 1])
        return self.rng.choice(us)

    def key(self, o=None, present=None):
        if o is not None and present is not None:
            ks = sorted(self.objs[o]["keys"]) if present else [k for k in range(NKEYS) if k not in self.objs[o]["keys"]]
            if ks and self.rng.random() < 0.85:
                return self.rng.choice(ks)
        return self.rng.randrange(NKEYS)

    def full_data(self, v=None, w=None):
        r = self.rng
        return {"v": v or self.val(), "w": (r.random() < 0.8) if w is None else w, "e": r.random() < 0.8, "c": r.random() < 0.85}

    def full_acc(self):
        r = self.rng
        d = {"e": r.random() < 0.8, "c": r.random() < 0.85}
        m = r.random()
        if m < 0.6:
            d["g"] = self.fn(); d["s"] = self.fn()
        elif m < 0.8:
            d["g"] = self.fn()
        elif m < 0.92:
            d["s"] = self.fn()
        else:
            d["g"] = self.fn(); d["s"] = "u"
        return d

    def partial(self):
        r = self.rng
        m = r.random()
        if m < 0.25:
            return {"w": r.random() < 0.4}
        if m < 0.4:
            return {"e": r.random() < 0.5}
        if m < 0.5:
            return {"c": False}
        if m < 0.65:
            return {"v": self.val()}
        if m < 0.75:
            return {"s": r.choice(["u", self.fn()])}
        if m < 0.85:
            return {"g": r.choice(["u", self.fn()])}
        if m < 0.93:
            return {"w": r.random() < 0.5, "e": r.random() < 0.5}
        return {}

    def define(self, o=None, k=None, d=None):
        o = self.pick_obj() if o is None else o
        if k is None:
            k = self.key(o, present=self.rng.random() < 0.45)
        if d is None:
            m = self.rng.random()
            d = self.full_data() if m < 0.5 else (self.full_acc() if m < 0.72 else self.partial())
        self.objs[o]["keys"].add(k)
        self.emit(("D", o, k, d))

    def delete(self, o=None, k=None):
        o = self.pick_obj() if o is None else o
        k = self.key(o, present=True) if k is None else k
        self.objs[o]["keys"].discard(k)
        self.emit(("X", o, k))

    def chain_keys(self, o):
        ks, seen = set(), 0
        while o is not None and seen < 8:
            ks |= self.objs[o]["keys"]
            o = self.objs[o]["proto"]
            seen += 1
        return ks

    def get(self, o=None, k=None, s=None):
        o = self.pick_obj() if o is None else o
        if k is None:
            ks = sorted(self.chain_keys(o))
            k = self.rng.choice(ks) if ks and self.rng.random() < 0.9 else self.rng.randrange(NKEYS)
        s = self.rng.randrange(self.nsite["G"]) if s is None else s
        self.emit(("G", s, k, o))

    def set(self, o=None, k=None, s=None, v=None):
        o = self.pick_obj() if o is None else o
        if k is None:
            ks = sorted(self.chain_keys(o))
            k = self.rng.choice(ks) if ks and self.rng.random() < 0.8 else self.rng.randrange(NKEYS)
        s = self.rng.randrange(self.nsite["S"]) if s is None else s
        self.objs[o]["keys"].add(k)
        self.emit(("S", s, k, o, v or self.val()))

    def getglobal(self, k=None, s=None):
        if k is None:
            ks = sorted(self.chain_keys(1))
            k = self.rng.choice(ks) if ks and self.rng.random() < 0.85 else self.rng.randrange(NKEYS)
        s = self.rng.randrange(self.nsite["N"]) if s is None else s
        self.emit(("N", s, k))

    def setproto(self, o=None, p="rand"):
        us = self.user_objs()
        if o is None:
            o = self.rng.choice(us) if us and self.rng.random() < 0.93 else 1
        if p == "rand":
            p = self.rng.choice([None, 0] + us)
        self.objs[o]["proto"] = p if p != o else self.objs[o]["proto"]
        self.emit(("P", o, p))

    # ---- scenario fragments
    def random_op(self):
        r = self.rng.random()
        us = self.user_objs()
        if r < 0.07 or not us:
            self.alloc()
        elif r < 0.27:
            self.define()
        elif r < 0.35:
            self.delete()
        elif r < 0.40:
            self.setproto()
        elif r < 0.415 and us:
            self.emit(("E", self.rng.choice(us)))
        elif r < 0.43 and us:
            o = self.rng.choice(us)
            self.emit(("Z", o))
        elif r < 0.68:
            self.get()
        elif r < 0.85:
            self.set()
        elif r < 0.93:
            self.getglobal()
        else:
            self.emit(("M", self.pick_obj()))

    def frag_poly(self):
        """n objects with distinct shapes through one site, several rounds (<= 4 stays polymorphic, > 4 megamorphic)."""
        r = self.rng
        n = r.choice([1, 2, 3, 4, 4, 5, 5, 6, 7])
        k = r.randrange(NKEYS)
        kind = r.choice(["G", "G", "S"])
        s = r.randrange(self.nsite[kind])
        parent = r.choice([None, None, "p"])
        if parent == "p":
            parent = self.alloc(proto=None, uniq=r.random() < 0.2)
            self.define(parent, k, self.full_data() if r.random() < 0.6 else self.full_acc())
        objs = []
        for j in range(n):
            o = self.alloc(proto=parent, uniq=r.random() < 0.15)
            others = [x for x in range(NKEYS) if x != k]
            r.shuffle(others)
            for kk in others[:j % 3]:
                self.define(o, kk, self.full_data(w=True) if (j < 3 or r.random() < 0.5) else self.full_acc())
            if parent is None or r.random() < 0.3:
                self.define(o, k, {"v": self.val(), "w": True, "e": bool((j >> 1) & 1) or j < 2, "c": True} if r.random() < 0.8 else self.full_acc())
            objs.append(o)
        for _ in range(r.choice([1, 2, 2, 3])):
            order = list(objs)
            if r.random() < 0.3:
                r.shuffle(order)
            for o in order:
                if kind == "G":
                    self.get(o, k, s)
                else:
                    self.set(o, k, s)
            if r.random() < 0.4:
                self.random_op()

    def frag_proto(self):
        """warm a site through the prototype, mutate the prototype (or the chain), run the site again."""
        r = self.rng
        puniq = r.random() < 0.25
        p = r.choice([0, 0]) if r.random() < 0.12 else self.alloc(proto=r.choice([None, None, 0]), uniq=puniq)
        ks = list(range(NKEYS))
        r.shuffle(ks)
        nk = r.choice([1, 2, 2, 3])
        for kk in ks[:nk]:
            self.define(p, kk, self.full_data() if r.random() < 0.65 else self.full_acc())
        k = r.choice(ks[:nk])
        c = self.alloc(proto=p, uniq=r.random() < 0.2)
        c2 = self.alloc(proto=p, uniq=False) if r.random() < 0.4 else None
        if r.random() < 0.3:
            self.define(c, r.choice(ks[nk:] or ks), self.full_data())
        kind = r.choice(["G", "G", "G", "S"])
        s = r.randrange(self.nsite[kind])
        for _ in range(r.choice([2, 2, 3])):
            self.get(c, k, s) if kind == "G" else self.set(c, k, s)
        m = r.random()
        if m < 0.25:
            self.delete(p, r.choice(ks[:nk]))
            if r.random() < 0.6:
                self.define(p, r.choice(ks), self.full_data())
        elif m < 0.45:
            self.define(p, k, self.full_acc() if r.random() < 0.6 else self.partial())
        elif m < 0.6:
            self.define(p, r.choice(ks), self.full_data() if r.random() < 0.5 else self.full_acc())
        elif m < 0.7:
            self.setproto(c, r.choice([None, 0] + [o for o in self.user_objs() if o != c]))
        elif m < 0.8:
            self.define(c, k, self.full_data())
        elif m < 0.88:
            self.set(p, k)
        elif m < 0.94:
            self.emit(("Z", p)) if p >= 2 else self.define(p, k, {"w": False})
        else:
            self.setproto(p, r.choice([None, 0]))
        for _ in range(r.choice([1, 2])):
            self.get(c, k, s) if kind == "G" else self.set(c, k, s)
            if c2 is not None:
                self.get(c2, k, s) if kind == "G" else self.set(c2, k, s)
        if r.random() < 0.5:
            self.emit(("M", p))

    def frag_global(self):
        """global-object sites: GetNameGlobal and get/set with globalThis as the receiver."""
        r = self.rng
        k = r.randrange(NKEYS)
        where = r.choice([1, 1, 1, 0])
        self.define(where, k, self.full_data(w=True) if r.random() < 0.7 else self.full_acc())
        sN, sS, sG = r.randrange(self.nsite["N"]), r.randrange(self.nsite["S"]), r.randrange(self.nsite["G"])
        for _ in range(r.choice([2, 3])):
            m = r.random()
            if m < 0.45:
                self.getglobal(k, sN)
            elif m < 0.8:
                self.set(1, k, sS)
            else:
                self.get(1, k, sG)
        m = r.random()
        if m < 0.3:
            self.define(1, k, {"w": False} if r.random() < 0.6 else self.partial())
        elif m < 0.45:
            self.delete(where, k)
        elif m < 0.6:
            self.define(1, k, self.full_data())
        elif m < 0.7:
            self.define(0, k, self.full_data())
        elif m < 0.8:
            self.define(where, k, self.full_acc())
        else:
            self.define(where, r.randrange(NKEYS), self.full_data())
        for _ in range(r.choice([1, 2, 3])):
            m = r.random()
            if m < 0.45:
                self.getglobal(k, sN)
            elif m < 0.8:
                self.set(1, k, sS)
            else:
                self.get(1, k, sG)
        if r.random() < 0.5:
            self.emit(("M", 1))

    def frag_own(self):
        """own-property sites across layout changes of the receiver (the case the caches handle correctly)."""
        r = self.rng
        o = self.alloc(proto=r.choice([None, 0]), uniq=r.random() < 0.3)
        ks = list(range(NKEYS))
        r.shuffle(ks)
        for kk in ks[:r.choice([2, 3, 4])]:
            self.define(o, kk, self.full_data() if r.random() < 0.7 else self.full_acc())
        k = r.choice(sorted(self.objs[o]["keys"]))
        sG, sS = r.randrange(self.nsite["G"]), r.randrange(self.nsite["S"])
        for _ in range(r.choice([2, 3, 5])):
            m = r.random()
            if m < 0.3:
                self.get(o, k, sG)
            elif m < 0.5:
                self.set(o, k, sS)
            elif m < 0.65:
                self.delete(o)
            elif m < 0.85:
                self.define(o)
            else:
                self.define(o, k, self.partial())
            self.get(o, k, sG) if r.random() < 0.6 else self.set(o, k, sS)

    def frag_deep(self):
        """property two or three prototype levels up: never cacheable (NOT_CACHEABLE once a second prototype step is taken)."""
        r = self.rng
        top = r.choice([0, None, None])
        chain = [self.alloc(proto=top, uniq=r.random() < 0.2)]
        for _ in range(r.choice([2, 2, 3])):
            chain.append(self.alloc(proto=chain[-1], uniq=r.random() < 0.15))
        k = r.randrange(NKEYS)
        holder = r.choice(chain[:-2] + ([0] if top == 0 else []))
        self.define(holder, k, self.full_data() if r.random() < 0.6 else self.full_acc())
        if r.random() < 0.4:
            self.define(chain[-2], r.choice([x for x in range(NKEYS) if x != k]), self.full_data())
        kind = r.choice(["G", "G", "S"])
        s = r.randrange(self.nsite[kind])
        bottom = chain[-1]
        for _ in range(r.choice([2, 3])):
            self.get(bottom, k, s) if kind == "G" else self.set(bottom, k, s)
        m = r.random()
        if m < 0.3:
            self.define(chain[-2], k, self.full_data() if r.random() < 0.5 else self.full_acc())   # now one level up: cacheable
        elif m < 0.5:
            self.setproto(bottom, holder)
        elif m < 0.7:
            self.delete(holder, k)
        elif m < 0.85:
            self.define(holder, k, self.full_acc())
        for _ in range(r.choice([2, 3])):
            self.get(bottom, k, s) if kind == "G" else self.set(bottom, k, s)
            if r.random() < 0.5:
                self.get(chain[-2], k, s) if kind == "G" else self.set(chain[-2], k, s)

    def frag_selfmod(self):
        """an accessor whose getter/setter body changes the heap while the slow path is between its lookup and the cache store:
        lazy memoisation on the receiver, redefinition/deletion of the served property, layout shifts, prototype changes."""
        r = self.rng
        if len(self.free_body_fids) < 2:
            return self.frag_proto()
        fg, fs = self.free_body_fids.pop(0), self.free_body_fids.pop(0)
        k = r.randrange(NKEYS)
        others = [x for x in range(NKEYS) if x != k]
        holder = self.alloc(proto=r.choice([None, None, 0]), uniq=r.random() < 0.2)
        if r.random() < 0.5:
            self.define(holder, r.choice(others), self.full_data())          # a key before k: deleting it shifts k's slot
        through_proto = r.random() < 0.6
        recv = self.alloc(proto=holder, uniq=r.random() < 0.2) if through_proto else holder
        other = self.alloc(proto=None, uniq=False) if r.random() < 0.3 else None

        def body():
            m = r.random()
            if m < 0.25:
                return [("D", recv, k, self.full_data(w=True))]                                   # memoise on the receiver
            if m < 0.40:
                return [("D", holder, k, self.full_data(w=True) if r.random() < 0.7 else self.full_acc())]   # redefine where it lives
            if m < 0.52:
                return [("X", holder, k)]
            if m < 0.64:
                ks = sorted(self.objs[holder]["keys"] - {k})
                return [("X", holder, r.choice(ks))] if ks else [("D", holder, r.choice(others), self.full_data())]
            if m < 0.72:
                return [("D", holder, r.choice(others), self.full_acc())]
            if m < 0.80 and other is not None:
                return [("P", recv, other)]
            if m < 0.86:
                return [("E", recv)]
            if m < 0.93:
                return [("D", recv, r.choice(others), self.full_data())]
            return [("X", holder, k), ("D", holder, k, self.full_data(w=True))]
        for f in (fg, fs):
            if r.random() < 0.8:
                for b in body():
                    self.emit(("B", f, b))
        self.define(holder, k, {"g": "f%d" % fg, "s": "f%d" % fs, "e": True, "c": True})
        kind = r.choice(["G", "G", "S"])
        s = r.randrange(self.nsite[kind])
        for rnd in range(r.choice([1, 2])):
            for _ in range(r.choice([2, 3])):
                self.get(recv, k, s) if kind == "G" else self.set(recv, k, s)
                if recv != holder and r.random() < 0.3:
                    self.get(holder, k, s) if kind == "G" else self.set(holder, k, s)
            if rnd == 0 and r.random() < 0.6:
                self.define(holder, k, {"g": "f%d" % fg, "s": "f%d" % fs, "e": True, "c": True})      # arm it again
                if r.random() < 0.5:
                    self.delete(recv, k)
        self.emit(("M", holder))
        if recv != holder:
            self.emit(("M", recv))

    def frag_super(self):
        """`super.k = v` / `super.k` sites (SetPropertyByNameWithThis / GetPropertyByNameWithThis): the cache is keyed by the shape of the
        super object, the receiver is `this`; warmed with one receiver (often the super object itself), then switched."""
        r = self.rng
        k = r.randrange(NKEYS)
        top = self.alloc(proto=r.choice([None, None, 0]), uniq=r.random() < 0.2)
        sup = self.alloc(proto=top, uniq=r.random() < 0.2) if r.random() < 0.5 else top
        where = r.choice([sup, top])
        self.define(where, k, self.full_data(w=True) if r.random() < 0.7 else self.full_acc())
        others = [self.alloc(proto=r.choice([None, sup, top]), uniq=r.random() < 0.2) for _ in range(r.choice([1, 2]))]
        s = 10 + r.randrange(2)
        kind = r.choice(["T", "T", "T", "U"])
        warm = r.choice([sup, sup, where, others[0]])
        for _ in range(r.choice([2, 3])):
            self.emit(("T", s, k, sup, warm, self.val()) if kind == "T" else ("U", s, k, sup, warm))
        if r.random() < 0.3:
            self.random_op()
        for _ in range(r.choice([2, 3, 4])):
            recv = r.choice(others + [sup, top, warm])
            self.emit(("T", s, k, sup, recv, self.val()) if kind == "T" else ("U", s, k, sup, recv))
            if r.random() < 0.3:
                self.get(recv, k)
        for o in sorted(set([top, sup] + others)):
            self.emit(("M", o))

    def build(self):
        r = self.rng
        frags = [self.frag_poly, self.frag_proto, self.frag_proto, self.frag_global, self.frag_own, self.frag_deep, self.frag_selfmod, self.frag_super]
        while len(self.h) < self.size:
            m = r.random()
            if m < 0.55:
                r.choice(frags)()
            else:
                for _ in range(r.randrange(1, 6)):
                    self.random_op()
        for o in sorted(self.objs):
            self.emit(("M", o))
        return self.h


def generate(rng, size):
    g = Gen(rng, size)
    return g.build(), g.stats


EDGE_HISTORIES = [
    # DESIGN.md section 5 #11: cached PROTOTYPE slot survives layout changes of the prototype
    "A s -;D 2 0 v=n1 w=1 e=1 c=1;D 2 1 v=n2 w=1 e=1 c=1;A s 2;G 0 1 3;G 0 1 3;X 2 1;D 2 2 v=n7 w=1 e=1 c=1;X 2 0;G 0 1 3;M 2",
    "A s -;D 2 0 v=n1 w=1 e=1 c=1;A s 2;G 0 0 3;G 0 0 3;D 2 0 g=f1 s=f2 e=1 c=1;G 0 0 3;M 2",
    "A s -;D 2 0 v=n1 w=1 e=1 c=1;D 2 1 v=n2 w=1 e=1 c=1;A s 2;G 0 1 3;G 0 1 3;X 2 0;G 0 1 3;M 2",
    # #12: unique shape keeps its identity on a same-width attribute change
    "D 1 0 v=n1 w=1 e=1 c=1;S 0 0 1 n2;S 0 0 1 n3;D 1 0 w=0;S 0 0 1 n4;N 0 0;M 1",
    # unique receiver: own property inserted in place shadows a cached PROTOTYPE entry
    "D 0 0 v=n1 w=1 e=1 c=1;N 0 0;N 0 0;D 1 0 v=n2 w=1 e=1 c=1;N 0 0;M 1",
    # strict set through a cached accessor slot whose setter is undefined
    "A s -;D 2 0 g=f1 s=f2 e=1 c=1;S 0 0 2 n1;S 0 0 2 n2;D 2 0 s=u;S 0 0 2 n3;M 2",
    # megamorphic: five shapes through one site
    "A s -;A s -;A s -;A s -;A s -;D 2 0 v=n1 w=1 e=1 c=1;D 3 1 v=n1 w=1 e=1 c=1;D 3 0 v=n2 w=1 e=1 c=1;D 4 2 v=n1 w=1 e=1 c=1;D 4 0 v=n3 w=1 e=1 c=1;"
    "D 5 3 v=n1 w=1 e=1 c=1;D 5 0 v=n4 w=1 e=1 c=1;D 6 0 v=n5 w=0 e=1 c=1;G 0 0 2;G 0 0 3;G 0 0 4;G 0 0 5;G 0 0 6;G 0 0 2;G 0 0 6",
    # shape rollback loses an earlier same-width attribute change (not an IC matter; model and engine agree)
    "A s -;D 2 0 v=n1 w=1 e=1 c=1;D 2 1 v=n2 w=1 e=1 c=1;D 2 2 v=n3 w=1 e=1 c=1;D 2 0 w=0;X 2 1;S 0 0 2 n9;G 0 0 2;M 2",
]
