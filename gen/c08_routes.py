"""C08: table of re-entry routes.  Every route is a JS expression/statement template that invokes the
function named by {T} (no arguments needed) through one way JS re-enters JS.  The check wraps the route in
try/catch/finally at every level and combines it with a limit kind:

  loop       T runs `while(true)` (or another loop form) printing "b" per iteration
  recursion  T invokes itself through the route (printing "b" once per activation)
  stack      same as recursion with a large recursion limit and a small stack limit

tags: 'sync' the route runs T during evaluation; 'job' the route runs T in a promise job (the error is reported
by run_jobs); 'norec' the route cannot be used recursively in a useful way (skipped for recursion/stack).
"""

ROUTES = [
    # name, template (statement using {T}), tags
    ("call", "{T}();", "sync"),
    ("call-method", "({{m:{T}}}).m();", "sync"),
    ("new", "new {T}();", "sync"),
    ("getter", "({{get x(){{ return {T}(); }}}}).x;", "sync"),
    ("setter", "({{set x(v){{ {T}(); }}}}).x = 1;", "sync"),
    ("getter-defineProperty", "Object.defineProperty({{}}, 'x', {{get: {T}}}).x;", "sync"),
    ("getter-proto-chain", "Object.create({{get x(){{ return {T}(); }}}}).x;", "sync"),
    ("getter-Object.assign", "Object.assign({{}}, {{get x(){{ return {T}(); }}}});", "sync"),
    ("getter-spread-object", "({{...{{get x(){{ return {T}(); }}}}}});", "sync"),
    ("getter-JSON.stringify", "JSON.stringify({{get x(){{ return {T}(); }}}});", "sync"),
    ("toJSON", "JSON.stringify({{toJSON: {T}}});", "sync"),
    ("proxy-get", "new Proxy({{}}, {{get(){{ return {T}(); }}}}).x;", "sync"),
    ("proxy-set", "new Proxy({{}}, {{set(){{ {T}(); return true; }}}}).x = 1;", "sync"),
    ("proxy-has", "('x' in new Proxy({{}}, {{has(){{ {T}(); return true; }}}}));", "sync"),
    ("proxy-deleteProperty", "delete new Proxy({{}}, {{deleteProperty(){{ {T}(); return true; }}}}).x;", "sync"),
    ("proxy-ownKeys", "Object.keys(new Proxy({{}}, {{ownKeys(){{ {T}(); return []; }}}}));", "sync"),
    ("proxy-getOwnPropertyDescriptor", "Object.getOwnPropertyDescriptor(new Proxy({{}}, {{getOwnPropertyDescriptor(){{ {T}(); }}}}), 'x');", "sync"),
    ("proxy-defineProperty", "Object.defineProperty(new Proxy({{}}, {{defineProperty(){{ {T}(); return true; }}}}), 'x', {{value:1, configurable:true}});", "sync"),
    ("proxy-getPrototypeOf", "Object.getPrototypeOf(new Proxy({{}}, {{getPrototypeOf(){{ {T}(); return null; }}}}));", "sync"),
    ("proxy-setPrototypeOf", "Object.setPrototypeOf(new Proxy({{}}, {{setPrototypeOf(){{ {T}(); return true; }}}}), null);", "sync"),
    ("proxy-isExtensible", "Object.isExtensible(new Proxy({{}}, {{isExtensible(){{ {T}(); return true; }}}}));", "sync"),
    ("proxy-preventExtensions", "Object.preventExtensions(new Proxy({{}}, {{preventExtensions(t){{ {T}(); Object.preventExtensions(t); return true; }}}}));", "sync"),
    ("proxy-apply", "new Proxy(function(){{}}, {{apply(){{ return {T}(); }}}})();", "sync"),
    ("proxy-construct", "new (new Proxy(function(){{}}, {{construct(){{ {T}(); return {{}}; }}}}))();", "sync"),
    ("proxy-has-with", "with (new Proxy({{}}, {{has(t,k){{ if (k === 'zz') {T}(); return false; }}}})) {{ typeof zz; }}", "sync"),
    ("iterator-for-of", "for (var _x of {{[Symbol.iterator](){{ return {{next(){{ {T}(); return {{done:true}}; }}}}; }}}}) {{}}", "sync"),
    ("iterator-getter-Symbol.iterator", "for (var _x of {{get [Symbol.iterator](){{ {T}(); return function(){{ return {{next(){{ return {{done:true}}; }}}}; }}; }}}}) {{}}", "sync"),
    ("iterator-spread", "[...{{[Symbol.iterator](){{ return {{next(){{ {T}(); return {{done:true}}; }}}}; }}}}];", "sync"),
    ("iterator-spread-call", "(function(){{}})(...{{[Symbol.iterator](){{ return {{next(){{ {T}(); return {{done:true}}; }}}}; }}}});", "sync"),
    ("iterator-destructuring", "var [_d] = {{[Symbol.iterator](){{ return {{next(){{ {T}(); return {{done:true}}; }}}}; }}}};", "sync"),
    ("iterator-destructuring-rest", "var [..._r] = {{[Symbol.iterator](){{ return {{next(){{ {T}(); return {{done:true}}; }}}}; }}}};", "sync"),
    ("iterator-return", "for (var _x of {{[Symbol.iterator](){{ return {{next(){{ return {{done:false}}; }}, return(){{ {T}(); return {{}}; }}}}; }}}}) {{ break; }}", "sync"),
    ("iterator-done-getter", "for (var _x of {{[Symbol.iterator](){{ return {{next(){{ return {{get done(){{ {T}(); return true; }}}}; }}}}; }}}}) {{}}", "sync"),
    ("iterator-Array.from", "Array.from({{[Symbol.iterator](){{ return {{next(){{ {T}(); return {{done:true}}; }}}}; }}}});", "sync"),
    ("iterator-Set", "new Set({{[Symbol.iterator](){{ return {{next(){{ {T}(); return {{done:true}}; }}}}; }}}});", "sync"),
    ("iterator-Map", "new Map({{[Symbol.iterator](){{ return {{next(){{ {T}(); return {{done:true}}; }}}}; }}}});", "sync"),
    ("iterator-Object.fromEntries", "Object.fromEntries({{[Symbol.iterator](){{ return {{next(){{ {T}(); return {{done:true}}; }}}}; }}}});", "sync"),
    ("iterator-yield*", "(function*(){{ yield* {{[Symbol.iterator](){{ return {{next(){{ {T}(); return {{done:true}}; }}}}; }}}}; }})().next();", "sync"),
    ("iterator-Promise.all", "Promise.all({{[Symbol.iterator](){{ return {{next(){{ {T}(); return {{done:true}}; }}}}; }}}});", "sync"),
    ("generator-next", "(function*(){{ {T}(); }})().next();", "sync"),
    ("generator-spread", "[...(function*(){{ {T}(); }})()];", "sync"),
    ("generator-for-of", "for (var _x of (function*(){{ {T}(); }})()) {{}}", "sync"),
    ("generator-return-finally", "var _g = (function*(){{ try {{ yield 1; }} finally {{ {T}(); }} }})(); _g.next(); _g.return(1);", "sync"),
    ("generator-throw-catch", "var _g = (function*(){{ try {{ yield 1; }} catch (e) {{ {T}(); }} }})(); _g.next(); _g.throw(1);", "sync"),
    ("cb-forEach", "[1].forEach(function(){{ {T}(); }});", "sync"),
    ("cb-map", "[1].map(function(){{ return {T}(); }});", "sync"),
    ("cb-filter", "[1].filter(function(){{ return {T}(); }});", "sync"),
    ("cb-reduce", "[1,2].reduce(function(){{ return {T}(); }});", "sync"),
    ("cb-reduceRight", "[1,2].reduceRight(function(){{ return {T}(); }});", "sync"),
    ("cb-find", "[1].find(function(){{ return {T}(); }});", "sync"),
    ("cb-findIndex", "[1].findIndex(function(){{ return {T}(); }});", "sync"),
    ("cb-findLast", "[1].findLast(function(){{ return {T}(); }});", "sync"),
    ("cb-some", "[1].some(function(){{ return {T}(); }});", "sync"),
    ("cb-every", "[1].every(function(){{ return {T}(); }});", "sync"),
    ("cb-flatMap", "[1].flatMap(function(){{ return {T}(); }});", "sync"),
    ("cb-sort", "[2,1].sort(function(){{ {T}(); return 0; }});", "sync"),
    ("cb-toSorted", "[2,1].toSorted(function(){{ {T}(); return 0; }});", "sync"),
    ("cb-Array.from-map", "Array.from([1], function(){{ return {T}(); }});", "sync"),
    ("cb-typedarray-forEach", "new Int8Array(1).forEach(function(){{ {T}(); }});", "sync"),
    ("cb-typedarray-sort", "new Int8Array(2).sort(function(){{ {T}(); return 0; }});", "sync"),
    ("cb-typedarray-map", "new Int8Array(1).map(function(){{ {T}(); return 0; }});", "sync"),
    ("cb-Map.forEach", "new Map([[1,1]]).forEach(function(){{ {T}(); }});", "sync"),
    ("cb-Set.forEach", "new Set([1]).forEach(function(){{ {T}(); }});", "sync"),
    ("cb-replace-string", "'a'.replace('a', function(){{ {T}(); return ''; }});", "sync"),
    ("cb-replaceAll-string", "'aa'.replaceAll('a', function(){{ {T}(); return ''; }});", "sync"),
    ("cb-replace-regexp", "'a'.replace(/a/, function(){{ {T}(); return ''; }});", "sync"),
    ("cb-replace-regexp-g", "'aa'.replace(/a/g, function(){{ {T}(); return ''; }});", "sync"),
    ("cb-JSON.parse-reviver", "JSON.parse('[1]', function(k, v){{ {T}(); return v; }});", "sync"),
    ("cb-JSON.stringify-replacer", "JSON.stringify({{a:1}}, function(k, v){{ {T}(); return v; }});", "sync"),
    ("cb-Symbol.replace", "'a'.replace({{[Symbol.replace](){{ {T}(); }}}}, '');", "sync"),
    ("cb-Symbol.split", "'a'.split({{[Symbol.split](){{ {T}(); }}}});", "sync"),
    ("cb-regexp-exec", "var _re = /a/; _re.exec = function(){{ {T}(); return null; }}; _re.test('a');", "sync"),
    ("cb-Symbol.hasInstance", "(1 instanceof {{[Symbol.hasInstance](){{ {T}(); }}}});", "sync"),
    ("cb-Symbol.species", "class _A extends Array {{ static get [Symbol.species](){{ {T}(); return Array; }} }} new _A(1).map(function(){{}});", "sync"),
    ("cb-Reflect.apply", "Reflect.apply({T}, null, []);", "sync"),
    ("cb-Reflect.construct", "Reflect.construct({T}, []);", "sync"),
    ("cb-Reflect.get-getter", "Reflect.get({{get x(){{ return {T}(); }}}}, 'x');", "sync"),
    ("eval-direct", "eval('{T}()');", "sync"),
    ("eval-indirect", "(0, eval)('{T}()');", "sync"),
    ("Function-ctor", "new Function('{T}()')();", "sync"),
    ("bind", "{T}.bind(null)();", "sync"),
    ("bound-chain", "{T}.bind(null).bind(null, 1).bind(null).bind(null, 2)();", "sync"),
    ("Reflect.get-getter-chain", "Reflect.get(Object.create({{get x(){{ return Reflect.get({{get y(){{ return {T}(); }}}}, 'y'); }}}}), 'x');", "sync"),
    ("call-apply-chain", "Function.prototype.call.call(Function.prototype.apply, {T}, null, []);", "sync"),
    ("async-await-chain", "(async function(){{ await {T}(); }})();", "sync"),
    ("generator-delegation-chain", "var _g = (function*(){{ {T}(); yield 1; }})(); for (var _i = 0; _i < 3; _i++) {{ _g = (function*(inner){{ yield* inner; }})(_g); }} _g.next();", "sync"),
    ("bind-new", "new ({T}.bind(null))();", "sync"),
    ("apply", "{T}.apply(null, []);", "sync"),
    ("call-call", "{T}.call(null);", "sync"),
    ("Function.prototype.call.call", "Function.prototype.call.call({T});", "sync"),
    ("coerce-toString", "'' + {{toString: {T}}};", "sync"),
    ("coerce-valueOf", "+{{valueOf: {T}}};", "sync"),
    ("coerce-toPrimitive", "`${{{{[Symbol.toPrimitive]: {T}}}}}`;", "sync"),
    ("coerce-property-key", "({{}})[{{toString: {T}}}];", "sync"),
    ("coerce-compare", "({{valueOf: {T}}}) < 1;", "sync"),
    ("coerce-equals", "({{valueOf: {T}}}) == 1;", "sync"),
    ("coerce-String()", "String({{toString: {T}}});", "sync"),
    ("coerce-Number()", "Number({{valueOf: {T}}});", "sync"),
    ("coerce-array-join", "[{{toString: {T}}}].join();", "sync"),
    ("coerce-array-index", "[1][{{toString: {T}}}];", "sync"),
    ("coerce-Math.max", "Math.max({{valueOf: {T}}});", "sync"),
    ("coerce-parseInt", "parseInt({{toString: {T}}});", "sync"),
    ("coerce-Date", "new Date({{valueOf: {T}}});", "sync"),
    ("coerce-length-getter", "Array.prototype.slice.call({{get length(){{ return {T}(); }}}});", "sync"),
    ("coerce-Error-message", "new Error({{toString: {T}}});", "sync"),
    ("coerce-template", "`${{{{toString: {T}}}}}`;", "sync"),
    ("tagged-template", "{T}`x`;", "sync"),
    ("class-field", "new (class {{ x = {T}(); }})();", "sync"),
    ("class-static-field", "(class {{ static x = {T}(); }});", "sync"),
    ("class-static-block", "(class {{ static {{ {T}(); }} }});", "sync"),
    ("class-computed-key", "(class {{ [{T}()](){{}} }});", "sync"),
    ("class-constructor", "new (class {{ constructor(){{ {T}(); }} }})();", "sync"),
    ("class-super-call", "new (class extends (class {{ constructor(){{ {T}(); }} }}) {{ constructor(){{ super(); }} }})();", "sync"),
    ("class-derived-default-ctor", "new (class extends (class {{ constructor(){{ {T}(); }} }}) {{}})();", "sync"),
    ("class-extends-expr", "(class extends ({T}(), Object) {{}});", "sync"),
    ("class-super-method", "new (class extends (class {{ m(){{ return {T}(); }} }}) {{ m(){{ return super.m(); }} }})().m();", "sync"),
    ("default-param", "(function(a = {T}()){{}})();", "sync"),
    ("destructuring-default", "var {{_q = {T}()}} = {{}};", "sync"),
    ("arrow", "(() => {T}())();", "sync"),
    ("optional-call", "({T})?.();", "sync"),
    ("async-function-body", "(async function(){{ {T}(); }})();", "sync"),
    ("async-arrow-body", "(async () => {{ {T}(); }})();", "sync"),
    # the first next() of an async generator runs the body synchronously: the error surfaces from next() itself
    ("async-generator-body", "(async function*(){{ {T}(); }})().next();", "sync"),
    ("async-generator-after-await", "(async function*(){{ await 1; {T}(); }})().next();", "job"),
    ("async-generator-second-next", "var _g = (async function*(){{ yield 1; {T}(); }})(); _g.next(); _g.next();", "job"),
    ("async-generator-return-finally", "var _g = (async function*(){{ try {{ yield 1; }} finally {{ {T}(); }} }})(); _g.next(); _g.return(1);", "job"),
    ("async-generator-throw-catch", "var _g = (async function*(){{ try {{ yield 1; }} catch (e) {{ {T}(); }} }})(); _g.next(); _g.throw(1);", "job"),
    ("async-generator-yield*-async-iterator", "(async function*(){{ yield* {{[Symbol.asyncIterator](){{ return {{next(){{ {T}(); return {{done:true}}; }}}}; }}}}; }})().next();", "sync"),
    ("for-await-over-async-generator", "(async function(){{ for await (var _x of (async function*(){{ {T}(); }})()) {{}} }})();", "sync"),
    ("promise-executor", "new Promise(function(){{ {T}(); }});", "sync"),
    ("promise-then", "Promise.resolve().then(function(){{ {T}(); }});", "job"),
    ("promise-catch", "Promise.reject(1).catch(function(){{ {T}(); }});", "job"),
    ("promise-finally", "Promise.resolve().finally(function(){{ {T}(); }});", "job"),
    ("promise-thenable", "Promise.resolve({{then(r){{ {T}(); }}}});", "job"),
    ("promise-thenable-getter", "Promise.resolve({{get then(){{ {T}(); }}}});", "sync"),
    ("await-continuation", "(async function(){{ await 1; {T}(); }})();", "job"),
    ("await-thenable", "(async function(){{ await {{then(r){{ {T}(); }}}}; }})();", "job"),
    ("for-await-body", "(async function(){{ for await (var _x of [1]) {{ {T}(); }} }})();", "job"),
    ("async-iterator-next", "(async function(){{ for await (var _x of {{[Symbol.asyncIterator](){{ return {{next(){{ {T}(); return {{done:true}}; }}}}; }}}}) {{}} }})();", "sync"),
    ("Array-toString-join-override", "var _a = [1]; _a.join = {T}; '' + _a;", "sync"),
    ("Object.groupBy", "Object.groupBy([1], function(){{ return {T}(); }});", "sync"),
    ("String.raw-getter", "String.raw({{get raw(){{ return {T}(); }}}});", "sync"),
    ("Array.prototype.concat-spreadable", "[].concat({{get [Symbol.isConcatSpreadable](){{ return {T}(); }}}});", "sync"),
    ("structured-getter-in-Object.entries", "Object.entries({{get x(){{ return {T}(); }}}});", "sync"),
]

# native loops driven by a user iterator: every step re-enters JS, no JS loop head is passed
NATIVE_LOOPS = [
    ("spread-array", "[...{IT}];"),
    ("spread-call", "(function(){{}})(...{IT});"),
    ("destructuring-rest", "var [..._r] = {IT};"),
    ("Array.from", "Array.from({IT});"),
    ("Set", "new Set({IT});"),
    ("Promise.all", "Promise.all({IT});"),
    ("yield*-spread", "[...(function*(){{ yield* {IT}; }})()];"),
]
ENDLESS_IT = "{[Symbol.iterator](){ var n = 0; return {next(){ print('b'); return {done: ++n > %d, value: 1}; }}; }}"


def direct_eval_chain(k):
    """Pure direct-eval recursion: the string re-enters eval, no function call on the way down."""
    return "var n = 0; var c = \"n++ < %d ? eval(c) : n\";\nprint('depth', eval(c));\n" % k


def generator_chain(k, form):
    """k delegating generators around a leaf, all resumed by one next(): depth = k + 1 generator frames."""
    body = "yield* inner;" if form == "yield*" else "for (var x of inner) { yield x; }"
    return ("function* leaf(){ print('leaf'); yield 1; }\nvar g = leaf();\n"
            "for (var i = 0; i < %d; i++) { g = (function*(inner){ %s })(g); }\nprint('value', g.next().value);\n" % (k, body))


def wrap_native_loop(tpl, steps):
    return "try { %s } catch (e) { print('caught 1'); } finally { print('finally 1'); }\nprint('after');\n" % tpl.format(IT=ENDLESS_IT % steps)


LOOP_BODIES = [
    # name, loop text with {P} = per-iteration statement; every one is infinite by the specification.
    # {P} carries a safety valve (returns from T after 400 iterations) so that a loop the limit fails to stop
    # still terminates and shows up as an overrun instead of a time-out.
    ("while", "while (true) {{ {P} }}"),
    ("do", "do {{ {P} }} while (true);"),
    ("for", "for (;;) {{ {P} }}"),
    ("for-let", "for (let _i = 0; ; _i++) {{ {P} }}"),
    ("for-of-gen", "for (var _v of (function*(){{ for(;;) yield 1; }})()) {{ {P} }}"),
    ("for-of-iter", "for (var _v of {{[Symbol.iterator](){{ return {{next(){{ return {{done:false, value:1}}; }}}}; }}}}) {{ {P} }}"),
    ("for-in-big", "for (var _k in Array(5000).fill(0)) {{ {P} }}"),
    ("labelled-continue", "_o: while (true) {{ _i: for (;;) {{ {P} continue _o; }} }}"),
    ("nested-inner", "for (var _j = 0; _j < 1; _j++) {{ while (true) {{ {P} }} }}"),
    ("while-try-continue", "while (true) {{ try {{ {P} continue; }} finally {{ }} }}"),
    ("switch-in-loop", "_l: while (true) {{ switch (1) {{ case 1: {P} continue _l; }} }}"),
    # iterations that END IN `continue` (plain, to the own label, to an outer loop, through a finally jump table)
    ("do-continue", "do {{ {P} continue; }} while (true);"),
    ("do-continue-own-label", "_d: do {{ {P} continue _d; }} while (true);"),
    ("do-continue-finally", "do {{ try {{ {P} continue; }} finally {{ }} }} while (true);"),
    ("do-continue-from-nested", "_o: do {{ for (;;) {{ {P} continue _o; }} }} while (true);"),
    ("do-continue-from-nested-finally", "_o: do {{ for (var _q of [1]) {{ try {{ {P} continue _o; }} finally {{ }} }} }} while (true);"),
    ("while-continue", "while (true) {{ {P} continue; }}"),
    ("for-continue", "for (;;) {{ {P} continue; }}"),
    ("for-let-continue", "for (let _i = 0; ; _i++) {{ (() => _i)(); {P} continue; }}"),
    ("for-of-continue", "for (var _v of (function*(){{ for(;;) yield 1; }})()) {{ {P} continue; }}"),
    ("for-continue-from-nested", "_o: for (;;) {{ do {{ {P} continue _o; }} while (true); }}"),
    # label sets: every label of `a: b: loop` designates the loop
    ("do-2-labels-continue-outer", "_a: _b: do {{ {P} continue _a; }} while (true);"),
    ("for-2-labels-continue-outer", "_a: _b: for (;;) {{ {P} continue _a; }}"),
    ("while-3-labels-continue-middle", "_a: _b: _c: while (true) {{ {P} continue _b; }}"),
]


def wrap_loop(route_tpl, loop_tpl, levels=2):
    """Program: T runs an infinite loop printing 'b'; the route is wrapped in try/catch/finally at every level."""
    body = loop_tpl.format(P="print('b'); if (++_n > 400) return;")
    t = ("function T() { var _n = 0; try { %s } catch (e) { print('caught T'); } finally { print('finally T'); } }\n" % body)
    call = route_tpl.format(T="T")
    inner = "try { %s } catch (e) { print('caught 1'); } finally { print('finally 1'); }" % call
    for k in range(2, levels + 1):
        inner = "try { (function(){ %s })(); } catch (e) { print('caught %d'); } finally { print('finally %d'); }" % (inner, k, k)
    return t + inner + "\nprint('after');\n"


def wrap_rec(route_tpl):
    """Program: T invokes itself through the route, every activation wrapped in try/catch/finally."""
    call = route_tpl.format(T="T")
    t = ("function T() { print('b'); try { %s } catch (e) { print('caught T'); } finally { print('finally T'); } }\n" % call)
    return t + "try { T(); } catch (e) { print('caught 0'); } finally { print('finally 0'); }\nprint('after');\n"
