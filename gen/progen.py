"""progen — the shared seeded JavaScript program generator (DESIGN.md Appendix C, "Generator outline").

API (stable; other property builders import it):

    gen_program(rng, preset="C01", size=40, form=None, max_depth=5) -> prog
        rng     random.Random (all randomness comes from it)
        preset  name in PRESETS ("C01", "C04", "C05", "C10", "C20", "async", "min"): feature weights over ONE grammar
        size    statement/expression budget (about the number of statements; 10..200)
        max_depth  bound on statement nesting (blocks, loops, function bodies)
        form    "script" (top-level code, completion value = script completion) | "func" (body inside
                `function main(){...}` + a final `main();` statement) | None (chosen by the preset)
        returns a jsast program dict (keys p_funcs/p_classes/p_body/p_strict as in coq/JSRef/Syntax.v) with an
        extra key "meta": {"form", "hermetic" (touches no global state: safe on a reused context), "features"
        (sorted list of feature tags, for distribution statistics), "early_error" (the program was built to
        contain an early SyntaxError), "main_call" (index of the final `main();` statement or None)}

    call_form(prog) -> prog   for form == "func": the same program without the final `main();`
                              (the host enters through JsObject::call on the global `main`)
    jsast.to_js(prog) / jsast.encode_prog(prog) print the JavaScript text / the JSRef wire S-expression.
    features(prog) -> list    feature tags;   PRESETS -> dict of weight tables (copy and edit to make a new preset).

Guarantees: programs are closed, deterministic, terminating by construction (every loop has a syntactic
bound on a protected counter, calls only go to functions of a lower level, generators are finite) and stay
inside the JSRef fragment (yield only in statement position, no async, no regex, no Date/Math.random, `**` only
on small integers, function values and engine error messages are never printed).
"""
import struct

from jsast import u, num, s, ident, call, pr, member, func, prog  # noqa: F401

# ------------------------------------------------------------------------------------------------ presets

BASE = {
    # statements
    "decl": 10, "assign": 8, "print": 9, "if": 5, "for": 4, "while": 2, "dowhile": 1, "forin": 2, "forof": 3,
    "switch": 3, "label": 2, "try": 5, "throw": 2, "block": 2, "funcdecl": 5, "classdecl": 3, "generator": 3,
    "break": 2, "continue": 2, "return": 2, "with": 0.5, "eval": 0.7, "exprstmt": 5,
    # idioms (feature interactions of DESIGN 4/C01)
    "i_operand_clobber": 2.0, "i_update_coerce": 1.5, "i_logassign_nested": 1.5, "i_int_edge": 1.5,
    "i_param_scope": 2.0, "i_obj_rest_nested": 1.5, "i_switch_tdz": 1.5, "i_finally_flow": 2.0,
    "i_destruct_defaults": 2.0, "i_class_order": 2.0, "i_coerce_order": 2.0, "i_tdz_closure": 1.5,
    "i_gen_protocol": 2.0, "i_compound_member": 1.5, "i_args_object": 1.0, "i_getter_setter": 1.5,
    "i_completion": 1.5, "i_spread_iter": 1.0, "i_label_loops": 1.0, "i_closure_loop": 1.0, "i_loop_head_closure": 2.5, "i_param_free_name": 2.5,
    # promises / async functions (jobs run after the script, FIFO)
    "i_async_order": 1.2, "i_promise_chain": 1.2, "i_thenable": 0.8, "i_promise_comb": 0.8, "i_async_flow": 1.0, "await": 6,
    # program-level probabilities
    "p_strict": 0.25, "p_func_form": 0.5, "p_early_error": 0.04, "p_wild": 0.15, "p_guard": 0.6,
}


def _preset(**kw):
    d = dict(BASE)
    d.update(kw)
    return d


PRESETS = {
    "C01": _preset(),
    # binding placement / operand shortcuts: many locals, closures capturing them, operand clobbering
    "C04": _preset(i_operand_clobber=5, i_tdz_closure=4, i_closure_loop=4, i_loop_head_closure=6, i_param_free_name=6, i_param_scope=4, i_switch_tdz=3, funcdecl=8,
                   classdecl=1, generator=1, p_func_form=0.8, i_update_coerce=3, i_logassign_nested=3),
    # optimizer: constant expressions, literal conditions, completion values
    "C05": _preset(i_completion=6, i_int_edge=4, i_coerce_order=3, classdecl=1, generator=1, p_func_form=0.3, p_const_fold=0.5),
    # gc: allocation heavy
    "C10": _preset(classdecl=6, i_class_order=4, i_closure_loop=4, i_spread_iter=3, i_gen_protocol=3, forof=5),
    # determinism: key order, for-in
    "C20": _preset(forin=6, i_obj_rest_nested=3, i_spread_iter=3, i_getter_setter=3),
    # async / promise ordering only (C16-style programs over the C01 grammar)
    "async": _preset(i_async_order=8, i_promise_chain=8, i_thenable=5, i_promise_comb=5, i_async_flow=8, classdecl=1, generator=1, p_early_error=0),
    # loop-head closures only (CreatePerIterationEnvironment sentinels)
    "loops": _preset(i_loop_head_closure=30, i_closure_loop=8, p_early_error=0),
    # parameter scope vs body var environment (FunctionDeclarationInstantiation 27-28)
    "params": _preset(i_param_free_name=30, i_param_scope=10, p_early_error=0),
    "min": _preset(**{k: 0 for k in BASE if k.startswith("i_") or k in ("with", "eval", "classdecl", "generator")}),
}

NUMS = [0, 1, 2, 3, 5, 7, 10, -1, -2, 0.5, 1.5, -0.0, 100, 255, 2147483647, -2147483648, 4294967295, 4294967296,
        9007199254740991, 1e21, 1e-7, 0.1, 0.2, float("nan"), float("inf"), float("-inf"), 123456789, 2147483648, -2147483649]
SMALL = [0, 1, 2, 3, 4, 5, 7, 10, -1]
STRS = ["", "a", "b", "abc", "5", "1.5", " 2 ", "0x10", "-0", "NaN", "Infinity", "x", "10", "1e3", "é", "true", "null", "[object Object]"]
KEYS = ["a", "b", "c", "x", "y", "length", "0", "1"]
VNAMES = ["a", "b", "c", "d", "e", "g", "h", "k", "m", "n", "p", "q", "r", "t", "v", "w", "x", "y", "z"]
NUM_BIN = ["BAdd", "BSub", "BMul", "BDiv", "BMod", "BBitAnd", "BBitOr", "BBitXor", "BShl", "BShr", "BUShr"]
CMP_BIN = ["BLt", "BLe", "BGt", "BGe", "BEq", "BNe", "BSEq", "BSNe"]
ERRORS = ["Error", "TypeError", "RangeError", "ReferenceError", "SyntaxError", "EvalError", "URIError"]


def pid(name):
    return ("PId", u(name))


def estr(t):
    return ("EStr", u(t))


def undefined():
    return ("EUnary", "UVoid", num(0))


def assign(name, e):
    return ("EAssign", pid(name), e)


def bin_(op, a, b):
    return ("EBinary", op, a, b)


def let(name, e, kind="KLet"):
    return ("SDecl", kind, [(pid(name), e)])


def obj(*pairs):
    return ("EObject", [("PInit", ("PKStr", u(k)), v) for k, v in pairs])


def arr(*elems):
    return ("EArray", [("AElem", e) for e in elems])


def mcall(o, name, *args):
    return call(member(o, name), *args)


def catch_print(tag="E"):
    """catch (e) { print(tag, e && e.name || e) }"""
    e = ident("e")
    return (pid("e"), [pr(estr(tag), ("ELogical", "LOr", ("ELogical", "LAnd", e, member(e, "name")), e))])


def guarded(stmts, tag="E"):
    return ("STry", list(stmts), catch_print(tag), None)


class Var:
    __slots__ = ("name", "decl", "ty", "level", "protected", "tdz", "scope")

    def __init__(self, name, decl, ty, level=0, protected=False, tdz=False):
        self.name, self.decl, self.ty, self.level, self.protected, self.tdz = name, decl, ty, level, protected, tdz
        self.scope = None


class Scope:
    def __init__(self, parent, kind):
        self.parent, self.kind, self.names = parent, kind, {}

    def add(self, v):
        v.scope = self
        self.names[v.name] = v
        return v

    def lookup(self, name):
        sc = self
        while sc is not None:
            if name in sc.names:
                return sc.names[name]
            sc = sc.parent
        return None

    def visible(self):
        out, sc = {}, self
        while sc is not None:
            for n, v in sc.names.items():
                out.setdefault(n, v)
            sc = sc.parent
        return list(out.values())

    def func_scope(self):
        sc = self
        while sc.kind not in ("function", "global"):
            sc = sc.parent
        return sc


class Ctx:
    """where we are: function nesting info"""
    def __init__(self, level, in_func, in_gen=False, strict=False, in_loop=0, labels=(), in_switch=0, in_finally=0, is_arrow=False,
                 in_method=False, in_ctor=False, depth=0, in_async=False):
        self.depth = depth
        self.in_async = in_async
        self.level, self.in_func, self.in_gen, self.strict = level, in_func, in_gen, strict
        self.in_loop, self.labels, self.in_switch, self.in_finally = in_loop, labels, in_switch, in_finally
        self.is_arrow, self.in_method, self.in_ctor = is_arrow, in_method, in_ctor

    def but(self, **kw):
        c = Ctx(self.level, self.in_func, self.in_gen, self.strict, self.in_loop, self.labels, self.in_switch, self.in_finally,
                self.is_arrow, self.in_method, self.in_ctor, self.depth, self.in_async)
        for k, v in kw.items():
            setattr(c, k, v)
        return c


class Gen:
    def __init__(self, rng, preset="C01", size=40):
        self.rng = rng
        self.w = PRESETS[preset] if isinstance(preset, str) else dict(preset)
        self.budget = size
        self.funcs, self.classes = [], []
        self.features = set()
        self.hermetic = True
        self.counter = 0
        self.early_error = False
        self.max_depth = 5

    # ---------------------------------------------------------------- utilities
    def chance(self, p):
        return self.rng.random() < p

    def pick(self, seq):
        return seq[self.rng.randrange(len(seq))]

    def weighted(self, table):
        tot = sum(w for _, w in table)
        x = self.rng.random() * tot
        for k, w in table:
            x -= w
            if x < 0:
                return k
        return table[-1][0]

    def fresh(self, prefix):
        self.counter += 1
        return "%s%d" % (prefix, self.counter)

    def feat(self, f):
        self.features.add(f)

    def new_name(self, sc, avoid_visible=False):
        """a variable name: mostly fresh in this scope, sometimes shadowing an outer one"""
        for _ in range(20):
            n = self.pick(VNAMES)
            if n in sc.names:
                continue
            if n == "e":
                continue
            v = sc.lookup(n)
            if v is not None and (avoid_visible or v.protected or not self.chance(0.25)):
                continue
            if v is not None:
                self.feat("shadowing")
            return n
        return self.fresh("u")

    def var_ok(self, sc, name):
        """may `var name` be declared at this point? (no lexical binding of the same name between here and the function scope, inclusive)"""
        fs = sc.func_scope()
        s2 = sc
        while True:
            v = s2.names.get(name)
            if v is not None and v.decl in ("let", "const", "class", "catch"):
                return False
            if s2 is fs:
                return True
            s2 = s2.parent

    def add_func(self, f):
        self.funcs.append(f)
        return len(self.funcs) - 1

    def vars_of(self, sc, pred):
        return [v for v in sc.visible() if pred(v)]

    # ---------------------------------------------------------------- literals
    def lit(self, ty):
        if ty == "num":
            return num(self.pick(NUMS) if self.chance(0.45) else self.pick(SMALL))
        if ty == "int":
            return num(self.pick(SMALL))
        if ty == "str":
            return estr(self.pick(STRS))
        if ty == "bool":
            return ("EBool", self.chance(0.5))
        if ty == "bigint":
            return ("EBigInt", self.pick([0, 1, 2, -1, 10, 2 ** 64, -(2 ** 63)]))
        if ty == "arr":
            return arr(*[self.lit(self.pick(["int", "str", "num"])) for _ in range(self.rng.randrange(0, 4))])
        if ty == "obj":
            ks = self.rng.sample(KEYS[:5], self.rng.randrange(0, 4))
            return obj(*[(k, self.lit(self.pick(["int", "str", "num", "bool"]))) for k in ks])
        if ty == "null":
            return ("ENull",)
        if ty == "undef":
            return undefined()
        return self.lit(self.pick(["num", "str", "bool", "int", "int", "null", "undef"]))

    def coerce_obj(self, tag, val=None, kind=None):
        """an object whose conversion prints: {valueOf(){print(tag+'v'); return val}, toString(){...}}"""
        self.feat("coerce_obj")
        kind = kind or self.pick(["valueOf", "toString", "both", "toPrimitive", "valueOf_obj"])
        val = val if val is not None else self.lit(self.pick(["int", "str", "num"]))
        props = []

        def meth(name, tagx, ret, params=()):
            fi = self.add_func(func(name=name, kind="FMethod", params=[(pid(p), None) for p in params],
                                    body=[pr(estr(tag + tagx)), ("SReturn", ret)], strict=self.cur_strict))
            return fi
        if kind in ("valueOf", "both", "valueOf_obj"):
            ret = val if kind != "valueOf_obj" else obj()
            props.append(("PMethod", ("PKStr", u("valueOf")), meth("valueOf", ".v", ret)))
        if kind in ("toString", "both", "valueOf_obj"):
            props.append(("PMethod", ("PKStr", u("toString")), meth("toString", ".s", self.lit(self.pick(["str", "int"])) if kind != "toString" else val)))
        if kind == "toPrimitive":
            fi = self.add_func(func(name="[Symbol.toPrimitive]", kind="FMethod", params=[(pid("hint"), None)],
                                    body=[pr(estr(tag + ".p"), ident("hint")), ("SReturn", val)], strict=self.cur_strict))
            props.append(("PMethod", ("PKComputed", member(ident("Symbol"), "toPrimitive")), fi))
        return ("EObject", props)

    cur_strict = False

    # ---------------------------------------------------------------- expressions
    def var_of_type(self, sc, ty, assignable=False):
        def ok(v):
            if v.tdz or v.ty != ty:
                return False
            if assignable and (v.protected or v.decl in ("const", "func", "class")):
                return False
            return True
        vs = self.vars_of(sc, ok)
        return self.pick(vs) if vs else None

    def any_readable(self, sc):
        vs = self.vars_of(sc, lambda v: not v.tdz and v.ty in ("num", "str", "bool", "any", "int"))
        return self.pick(vs) if vs else None

    def expr(self, sc, cx, ty, d=0):
        """an expression that (usually) evaluates to a value of kind ty in
        {num,int,str,bool,any,arr,obj}; `any` = some primitive"""
        self.budget -= 0.15
        r = self.rng.random()
        if d >= 3 or self.budget <= 0 or r < 0.22:
            v = self.var_of_type(sc, ty) if self.chance(0.6) else None
            if v is None and ty == "any":
                v = self.any_readable(sc)
            if v is None and ty == "num":
                v = self.var_of_type(sc, "int")
            return ident(v.name) if v is not None else self.lit(ty)
        if self.chance(self.w["p_wild"]) and ty in ("num", "str", "bool", "any"):
            return self.wild(sc, cx, d)
        if ty in ("num", "int"):
            k = self.weighted([("bin", 5), ("var", 3), ("unary", 1.5), ("update", 1.2), ("assign", 1.2), ("opassign", 1.2), ("cond", 1),
                               ("call", 1.5), ("member", 1), ("len", 0.7), ("math", 0.6), ("seq", 0.4), ("conv", 0.6), ("logical", 0.6)])
            if k == "bin":
                op = self.pick(NUM_BIN)
                if op == "BAdd" or ty == "num" or True:
                    return bin_(op, self.expr(sc, cx, "num", d + 1), self.expr(sc, cx, "num", d + 1))
            if k == "var":
                v = self.var_of_type(sc, "num") or self.var_of_type(sc, "int")
                return ident(v.name) if v else self.lit(ty)
            if k == "unary":
                return ("EUnary", self.pick(["UNeg", "UPos", "UBitNot"]), self.expr(sc, cx, self.pick(["num", "num", "str", "bool"]), d + 1))
            if k == "update":
                v = self.var_of_type(sc, "num", assignable=True)
                if v:
                    return ("EUpdate", self.chance(0.5), self.chance(0.6), ident(v.name))
                return self.lit(ty)
            if k == "assign":
                v = self.var_of_type(sc, "num", assignable=True)
                if v:
                    return assign(v.name, self.expr(sc, cx, "num", d + 1))
                return self.lit(ty)
            if k == "opassign":
                v = self.var_of_type(sc, "num", assignable=True)
                if v:
                    return ("EOpAssign", self.pick(NUM_BIN), ident(v.name), self.expr(sc, cx, "num", d + 1))
                return self.lit(ty)
            if k == "cond":
                return ("ECond", self.expr(sc, cx, "bool", d + 1), self.expr(sc, cx, ty, d + 1), self.expr(sc, cx, ty, d + 1))
            if k == "call":
                c = self.call_expr(sc, cx, d)
                return c if c is not None else self.lit(ty)
            if k == "member":
                v = self.var_of_type(sc, "obj")
                if v:
                    return member(ident(v.name), self.pick(KEYS[:5]))
                return self.lit(ty)
            if k == "len":
                v = self.var_of_type(sc, "arr") or self.var_of_type(sc, "str")
                if v:
                    return member(ident(v.name), "length")
                return self.lit(ty)
            if k == "math":
                f = self.pick(["abs", "floor", "ceil", "trunc", "sign", "max", "min"])
                args = [self.expr(sc, cx, "num", d + 1) for _ in range(2 if f in ("max", "min") else 1)]
                return mcall(ident("Math"), f, *args)
            if k == "seq":
                return ("ESeq", self.expr(sc, cx, "any", d + 1), self.expr(sc, cx, ty, d + 1))
            if k == "conv":
                return call(ident("Number"), self.expr(sc, cx, self.pick(["str", "bool", "any"]), d + 1))
            if k == "logical":
                return ("ELogical", self.pick(["LAnd", "LOr", "LCoalesce"]), self.expr(sc, cx, "num", d + 1), self.expr(sc, cx, "num", d + 1))
        if ty == "str":
            k = self.weighted([("concat", 4), ("var", 3), ("template", 1.5), ("typeof", 1), ("conv", 1), ("charAt", 0.7), ("join", 0.7),
                               ("cond", 0.7), ("assign", 0.8), ("opassign", 0.8), ("index", 0.5)])
            if k == "concat":
                a = self.expr(sc, cx, "str", d + 1)
                b = self.expr(sc, cx, self.pick(["str", "num", "any", "bool"]), d + 1)
                return bin_("BAdd", a, b) if self.chance(0.6) else bin_("BAdd", b, a)
            if k == "var":
                v = self.var_of_type(sc, "str")
                return ident(v.name) if v else self.lit(ty)
            if k == "template":
                n = self.rng.randrange(1, 3)
                return ("ETemplate", [u(self.pick(["", "a", " ", "-"])) for _ in range(n + 1)], [self.expr(sc, cx, "any", d + 1) for _ in range(n)])
            if k == "typeof":
                v = self.pick(sc.visible()) if sc.visible() and self.chance(0.7) else None
                if v is not None and not v.tdz:
                    return ("EUnary", "UTypeof", ident(v.name))
                return ("EUnary", "UTypeof", ident(self.pick(["undeclared1", "zz"])) if self.chance(0.5) else self.expr(sc, cx, "any", d + 1))
            if k == "conv":
                return call(ident("String"), self.expr(sc, cx, self.pick(["num", "bool", "any"]), d + 1))
            if k == "charAt":
                return mcall(self.expr(sc, cx, "str", d + 1), "charAt", self.lit("int"))
            if k == "join":
                v = self.var_of_type(sc, "arr")
                if v:
                    return mcall(ident(v.name), "join", *([estr(self.pick(["", "-", ","]))] if self.chance(0.5) else []))
                return self.lit(ty)
            if k == "cond":
                return ("ECond", self.expr(sc, cx, "bool", d + 1), self.expr(sc, cx, ty, d + 1), self.expr(sc, cx, ty, d + 1))
            if k == "assign":
                v = self.var_of_type(sc, "str", assignable=True)
                if v:
                    return assign(v.name, self.expr(sc, cx, "str", d + 1))
                return self.lit(ty)
            if k == "opassign":
                v = self.var_of_type(sc, "str", assignable=True)
                if v:
                    return ("EOpAssign", "BAdd", ident(v.name), self.expr(sc, cx, self.pick(["str", "num"]), d + 1))
                return self.lit(ty)
            if k == "index":
                return ("EIndex", self.expr(sc, cx, "str", d + 1), self.lit("int"), False)
        if ty == "bool":
            k = self.weighted([("cmp", 5), ("not", 1), ("var", 2), ("logic", 1.5), ("in", 0.5), ("instanceof", 0.4), ("isArray", 0.3), ("lit", 1)])
            if k == "cmp":
                t = self.pick(["num", "num", "str", "any"])
                t2 = t if self.chance(0.7) else self.pick(["num", "str", "any", "bool"])
                return bin_(self.pick(CMP_BIN), self.expr(sc, cx, t, d + 1), self.expr(sc, cx, t2, d + 1))
            if k == "not":
                return ("EUnary", "UNot", self.expr(sc, cx, "any", d + 1))
            if k == "var":
                v = self.var_of_type(sc, "bool")
                return ident(v.name) if v else self.lit(ty)
            if k == "logic":
                return ("ELogical", self.pick(["LAnd", "LOr"]), self.expr(sc, cx, "bool", d + 1), self.expr(sc, cx, "bool", d + 1))
            if k == "in":
                v = self.var_of_type(sc, "obj") or self.var_of_type(sc, "arr")
                if v:
                    return bin_("BIn", estr(self.pick(KEYS)), ident(v.name))
                return self.lit(ty)
            if k == "instanceof":
                v = self.var_of_type(sc, "obj") or self.var_of_type(sc, "arr")
                if v:
                    return bin_("BInstanceof", ident(v.name), ident(self.pick(["Object", "Array", "Error"])))
                return self.lit(ty)
            if k == "isArray":
                return mcall(ident("Array"), "isArray", self.expr(sc, cx, self.pick(["arr", "any"]), d + 1))
            return self.lit(ty)
        if ty == "arr":
            v = self.var_of_type(sc, "arr")
            k = self.weighted([("lit", 3), ("var", 3 if v else 0), ("spread", 1 if v else 0), ("slice", 0.7 if v else 0), ("map", 0.7 if v else 0),
                               ("keys", 0.5)])
            if k == "lit":
                n = self.rng.randrange(0, 4)
                els = [("AElem", self.expr(sc, cx, self.pick(["num", "str", "any"]), d + 1)) for _ in range(n)]
                if self.chance(0.1):
                    els.insert(self.rng.randrange(len(els) + 1), ("AHole",))
                    self.feat("array_hole")
                return ("EArray", els)
            if k == "var":
                return ident(v.name)
            if k == "spread":
                self.feat("spread")
                return ("EArray", [("AElem", self.lit("int")), ("ASpread", ident(v.name))])
            if k == "slice":
                return mcall(ident(v.name), "slice", self.lit("int"))
            if k == "map":
                fi = self.add_func(func(kind="FArrow", params=[(pid("t"), None)], expr_body=bin_("BAdd", ident("t"), self.lit("int")), strict=cx.strict))
                return mcall(ident(v.name), "map", ("EFunc", fi))
            if k == "keys":
                o = self.var_of_type(sc, "obj")
                return mcall(ident("Object"), "keys", ident(o.name) if o else self.lit("obj"))
        if ty == "obj":
            v = self.var_of_type(sc, "obj")
            if v and self.chance(0.5):
                return ident(v.name)
            ks = self.rng.sample(KEYS[:5], self.rng.randrange(0, 4))
            props = [("PInit", ("PKStr", u(k)), self.expr(sc, cx, self.pick(["num", "str", "any"]), d + 1)) for k in ks]
            if v and self.chance(0.2):
                props.insert(self.rng.randrange(len(props) + 1), ("PSpread", ident(v.name)))
                self.feat("obj_spread")
            if self.chance(0.1):
                props.append(("PInit", ("PKComputed", self.expr(sc, cx, "str", d + 1)), self.lit("int")))
                self.feat("computed_key")
            return ("EObject", props)
        # any
        return self.expr(sc, cx, self.pick(["num", "str", "bool", "num", "str"]), d)

    def wild(self, sc, cx, d):
        """operators applied across the coercion lattice"""
        self.feat("wild_coercion")
        def operand():
            k = self.weighted([("lit", 4), ("var", 3), ("cobj", 1.5), ("arr", 0.8), ("obj", 0.5), ("bigint", 0.5), ("null", 0.7)])
            if k == "var":
                v = self.any_readable(sc)
                if v:
                    return ident(v.name)
            if k == "cobj":
                return self.coerce_obj(self.fresh("o"))
            if k == "arr":
                return self.lit("arr")
            if k == "obj":
                return self.lit("obj")
            if k == "bigint":
                self.feat("bigint")
                return self.lit("bigint")
            if k == "null":
                return self.lit(self.pick(["null", "undef"]))
            return self.lit("any")
        k = self.weighted([("bin", 5), ("cmp", 3), ("unary", 1.5), ("logical", 1), ("template", 0.5)])
        if k == "bin":
            return bin_(self.pick(NUM_BIN), operand(), operand())
        if k == "cmp":
            return bin_(self.pick(CMP_BIN), operand(), operand())
        if k == "unary":
            return ("EUnary", self.pick(["UNeg", "UPos", "UNot", "UBitNot", "UTypeof", "UVoid"]), operand())
        if k == "logical":
            return ("ELogical", self.pick(["LAnd", "LOr", "LCoalesce"]), operand(), operand())
        return ("ETemplate", [u(""), u("")], [operand()])

    def call_expr(self, sc, cx, d):
        fs = self.vars_of(sc, lambda v: v.ty == "fn" and v.level < cx.level and not v.tdz)
        if not fs:
            return None
        f = self.pick(fs)
        self.feat("call")
        n = self.rng.randrange(0, 4)
        args = [self.expr(sc, cx, self.pick(["num", "str", "any", "int"]), d + 1) for _ in range(n)]
        return call(ident(f.name), *args)

    # ---------------------------------------------------------------- patterns
    def pattern(self, sc, cx, d=0):
        """returns (pat, source_expr, [(name, ty)]) : a destructuring pattern with a matching initialiser"""
        self.feat("destructuring")
        names = []

        def nm():
            n = self.new_name(sc, avoid_visible=True)
            while n in [x for x, _ in names]:
                n = self.fresh("u")
            names.append((n, "any"))
            return n

        def default():
            if not self.chance(0.4):
                return None
            self.feat("destruct_default")
            e = self.expr(sc, cx, "any", 2)
            if self.chance(0.5):
                return ("ESeq", call(ident("print"), estr("d" + str(len(names)))), e)
            return e

        def go(depth):
            if self.chance(0.5):
                n = self.rng.randrange(1, 4)
                props, src = [], []
                for k in self.rng.sample(KEYS[:5], n):
                    if depth < 2 and self.chance(0.25):
                        q, sq = go(depth + 1)
                        self.feat("nested_pattern")
                    else:
                        q, sq = pid(nm()), self.lit(self.pick(["int", "str", "undef", "num"]))
                    props.append((("PKStr", u(k)), q, default()))
                    if self.chance(0.85):
                        src.append((k, sq))
                rest = None
                if self.chance(0.3):
                    rest = pid(nm())
                    names[-1] = (names[-1][0], "obj")
                    src.append((self.pick(["y", "z", "w"]), self.lit("int")))
                    self.feat("object_rest")
                self.rng.shuffle(src)
                return ("PObj", props, rest), obj(*src)
            n = self.rng.randrange(1, 4)
            els, src = [], []
            for _ in range(n):
                if self.chance(0.12):
                    els.append(None)
                    src.append(self.lit("int"))
                    continue
                if depth < 2 and self.chance(0.25):
                    q, sq = go(depth + 1)
                    self.feat("nested_pattern")
                else:
                    q, sq = pid(nm()), self.lit(self.pick(["int", "str", "undef", "num"]))
                els.append((q, default()))
                src.append(sq)
            if self.chance(0.3):
                src = src[:-1]
            rest = None
            if self.chance(0.3):
                rest = pid(nm())
                names[-1] = (names[-1][0], "arr")
                src.append(self.lit("int"))
                self.feat("array_rest")
            return ("PArr", els, rest), arr(*src)
        p, src = go(d)
        return p, src, names

    # ---------------------------------------------------------------- functions
    def make_function(self, sc, cx, name="", kind="FNormal", nparams=None, gen_body=None, force_params=None, allow_fancy=True):
        """generate a function (body in a new scope); returns (fidx, param_count)"""
        strict = cx.strict
        fsc = Scope(sc, "function")
        params, rest = [], None
        fancy = False
        n = self.rng.randrange(0, 4) if nparams is None else nparams
        for i in range(n):
            pn = self.new_name(fsc, avoid_visible=self.chance(0.7))
            d = None
            if allow_fancy and self.chance(0.2):
                d = self.expr(fsc, cx.but(in_func=True, in_loop=0, labels=(), in_switch=0), "any", 2)
                fancy = True
                self.feat("param_default")
            fsc.add(Var(pn, "param", "any" if d is not None or self.chance(0.4) else self.pick(["num", "num", "str"])))
            params.append((pid(pn), d))
        if allow_fancy and self.chance(0.12):
            rn = self.new_name(fsc, avoid_visible=True)
            fsc.add(Var(rn, "param", "arr"))
            rest = pid(rn)
            fancy = True
            self.feat("rest_param")
        own_strict = False
        if not strict and not fancy and kind in ("FNormal", "FGenerator") and self.chance(0.12):
            own_strict = True
            self.feat("function_strict")
        fcx = Ctx(cx.level, True, in_gen=(kind == "FGenerator"), strict=strict or own_strict, is_arrow=(kind in ("FArrow", "FAsyncArrow")),
                  in_async=(kind in ("FAsync", "FAsyncArrow")),
                  in_method=(cx.in_method if kind == "FArrow" else kind in ("FMethod", "FGetter", "FSetter")), depth=cx.depth + 1)
        saved = self.cur_strict
        self.cur_strict = fcx.strict
        uses_args = False
        body = []
        if kind not in ("FArrow",) and self.chance(0.08):
            uses_args = True
            self.feat("arguments")
            body.append(pr(estr("args"), member(ident("arguments"), "length"), ("EIndex", ident("arguments"), num(0), False)))
        if gen_body is not None:
            body += gen_body(fsc, fcx)
        else:
            nst = self.rng.randrange(1, 5)
            body += self.stmts(fsc, fcx, nst)
            if kind != "FGenerator" or self.chance(0.5):
                body.append(("SReturn", self.expr(fsc, fcx, "any", 1)))
        self.cur_strict = saved
        f = func(name=name, kind=kind, params=params, rest=rest, body=body, strict=fcx.strict, uses_args=uses_args)
        return self.add_func(f), len(params)

    # ---------------------------------------------------------------- statements
    def stmts(self, sc, cx, n):
        out = []
        hoisted = []
        for _ in range(n):
            if self.budget <= 0:
                break
            st = self.stmt(sc, cx)
            for x in st:
                if x[0] == "SFunDecl" and self.chance(0.4):
                    hoisted.append(x)
                else:
                    out.append(x)
        if hoisted:
            self.feat("hoisted_function")
        return out + hoisted

    def block_body(self, sc, cx, n=None):
        bsc = Scope(sc, "block")
        return self.stmts(bsc, cx.but(depth=cx.depth + 1), n if n is not None else self.rng.randrange(1, max(2, 4 - cx.depth)))

    def as_block(self, sc, cx, n=None):
        return ("SBlock", self.block_body(sc, cx, n))

    def stmt(self, sc, cx):
        """returns a list of statements"""
        self.budget -= 1
        w = self.w
        table = [(k, w[k]) for k in ("decl", "assign", "print", "if", "for", "while", "dowhile", "forin", "forof", "switch", "label", "try",
                                     "throw", "block", "funcdecl", "classdecl", "generator", "exprstmt")]
        table += [(k, w[k]) for k in w if k.startswith("i_")]
        if cx.in_loop or cx.in_switch or cx.labels:
            table.append(("break", w["break"]))
        if cx.in_loop:
            table.append(("continue", w["continue"]))
        if cx.in_func:
            table.append(("return", w["return"]))
        if cx.in_async and not cx.in_finally:
            table.append(("await", w["await"]))
        if not cx.strict:
            table.append(("with", w["with"]))
        table.append(("eval", w["eval"]))
        k = self.weighted(table)
        if (self.budget < 3 or cx.depth >= self.max_depth) and k in ("if", "for", "while", "dowhile", "forin", "forof", "switch", "label", "try", "block", "funcdecl", "classdecl", "generator"):
            k = "print"
        m = getattr(self, "s_" + k)
        r = m(sc, cx)
        if r is None:
            return self.s_print(sc, cx)
        if k.startswith("i_"):
            self.feat(k)
        return r

    def s_print(self, sc, cx):
        n = self.rng.randrange(1, 4)
        return [pr(*[self.expr(sc, cx, self.pick(["num", "str", "any", "bool", "arr"]), 1) for _ in range(n)])]

    def s_exprstmt(self, sc, cx):
        return [("SExpr", self.expr(sc, cx, self.pick(["num", "str", "bool", "any"]), 0))]

    def s_decl(self, sc, cx):
        kind = self.weighted([("KLet", 5), ("KConst", 2.5), ("KVar", 3)])
        if kind == "KVar" and sc.kind == "global":
            pass
        if self.chance(0.2):
            p, src, names = self.pattern(sc, cx)
            tgt = sc.func_scope() if kind == "KVar" else sc
            if kind == "KVar" and not all(self.var_ok(sc, n) for n, _ in names):
                return None
            for n, ty in names:
                tgt.add(Var(n, {"KLet": "let", "KConst": "const", "KVar": "var"}[kind], ty))
            out = [("SDecl", kind, [(p, src)])]
            out.append(pr(*[ident(n) if ty != "obj" else mcall(mcall(ident("Object"), "keys", ident(n)), "join") for n, ty in names]))
            return out
        ty = self.weighted([("num", 5), ("str", 3), ("bool", 1), ("arr", 2), ("obj", 2), ("any", 1.5)])
        tgt = sc.func_scope() if kind == "KVar" else sc
        name = self.new_name(tgt if kind == "KVar" else sc)
        if kind == "KVar" and not self.var_ok(sc, name):
            return None
        init = self.expr(sc, cx, ty, 0)
        if kind == "KVar" and self.chance(0.1):
            tgt.add(Var(name, "var", "any"))
            return [("SDecl", kind, [(pid(name), None)])]
        (tgt if kind == "KVar" else sc).add(Var(name, {"KLet": "let", "KConst": "const", "KVar": "var"}[kind], ty))
        return [("SDecl", kind, [(pid(name), init)])]

    def s_assign(self, sc, cx):
        ty = self.pick(["num", "num", "str", "bool", "any"])
        v = self.var_of_type(sc, ty, assignable=True)
        k = self.weighted([("var", 5 if v else 0), ("member", 2), ("index", 1.5), ("undeclared", 0.4 if not cx.strict else 0.1), ("const", 0.3),
                           ("pattern", 1)])
        if k == "var":
            if self.chance(0.3) and ty in ("num", "str"):
                return [("SExpr", ("EOpAssign", "BAdd" if ty == "str" else self.pick(NUM_BIN), ident(v.name), self.expr(sc, cx, ty, 1)))]
            if self.chance(0.15):
                self.feat("logical_assign")
                return [("SExpr", ("ELogAssign", self.pick(["LAnd", "LOr", "LCoalesce"]), ident(v.name), self.expr(sc, cx, ty, 1)))]
            return [("SExpr", assign(v.name, self.expr(sc, cx, ty, 1)))]
        if k == "member":
            o = self.var_of_type(sc, "obj")
            if o:
                return [("SExpr", ("EAssign", ("PExpr", member(ident(o.name), self.pick(KEYS[:5]))), self.expr(sc, cx, "any", 1)))]
        if k == "index":
            a = self.var_of_type(sc, "arr")
            if a:
                return [("SExpr", ("EAssign", ("PExpr", ("EIndex", ident(a.name), self.lit("int"), False)), self.expr(sc, cx, "any", 1)))]
        if k == "undeclared":
            self.hermetic = False
            self.feat("undeclared_assign")
            n = self.pick(["gl1", "gl2"])
            return [guarded([("SExpr", assign(n, self.expr(sc, cx, "num", 1))), pr(ident(n))])]
        if k == "const":
            c = self.vars_of(sc, lambda v: v.decl == "const" and not v.tdz and v.ty in ("num", "str", "any", "bool"))
            if c:
                self.feat("const_assign")
                return [guarded([("SExpr", assign(self.pick(c).name, self.lit("int")))])]
        if k == "pattern":
            vs = self.vars_of(sc, lambda v: v.ty == "any" and not v.tdz and not v.protected and v.decl in ("let", "var", "param"))
            if len(vs) >= 2:
                self.feat("destructuring_assign")
                a, b = self.rng.sample(vs, 2)
                if self.chance(0.5):
                    return [("SExpr", ("EAssign", ("PArr", [(pid(a.name), None), (pid(b.name), None)], None), arr(ident(b.name), ident(a.name))))]
                return [("SExpr", ("EAssign", ("PObj", [(("PKStr", u("a")), pid(a.name), self.lit("int") if self.chance(0.5) else None),
                                                       (("PKStr", u("b")), pid(b.name), None)], None), self.expr(sc, cx, "obj", 1)))]
        return None

    def cond(self, sc, cx):
        return self.expr(sc, cx, "bool" if self.chance(0.8) else "any", 1)

    def s_if(self, sc, cx):
        self.feat("if")
        t = self.as_block(sc, cx)
        f = self.as_block(sc, cx) if self.chance(0.4) else None
        return [("SIf", self.cond(sc, cx), t, f)]

    def loop_body(self, sc, cx, pre=(), n=None):
        bsc = Scope(sc, "block")
        return ("SBlock", list(pre) + self.stmts(bsc, cx.but(in_loop=cx.in_loop + 1, depth=cx.depth + 1), n if n is not None else self.rng.randrange(1, max(2, 4 - cx.depth))))

    def s_for(self, sc, cx):
        self.feat("for")
        lsc = Scope(sc, "block")
        i = self.new_name(lsc, avoid_visible=True)
        kind = "KLet" if self.chance(0.7) else "KVar"
        if kind == "KVar" and (not self.var_ok(sc, i) or i in sc.func_scope().names):
            kind = "KLet"
        if kind == "KVar":
            sc.func_scope().add(Var(i, "var", "int", protected=True))
        if kind == "KLet":
            lsc.add(Var(i, "let", "int", protected=True))
        bound = self.rng.randrange(1, 5)
        body = self.loop_body(lsc, cx)
        return [("SFor", ("FIDecl", kind, [(pid(i), num(0))]), bin_("BLt", ident(i), num(bound)), ("EUpdate", self.chance(0.5), True, ident(i)), body)]

    def counter_loop(self, sc, cx, do_while):
        c = self.fresh("c")
        sc.add(Var(c, "let", "int", protected=True))
        bound = self.rng.randrange(1, 4)
        inc = ("SExpr", ("EUpdate", False, True, ident(c)))
        body = self.loop_body(sc, cx, pre=[inc])
        test = bin_("BLt", ident(c), num(bound))
        loop = ("SDoWhile", body, test) if do_while else ("SWhile", test, body)
        return [let(c, num(0)), loop]

    def s_while(self, sc, cx):
        self.feat("while")
        return self.counter_loop(sc, cx, False)

    def s_dowhile(self, sc, cx):
        self.feat("dowhile")
        return self.counter_loop(sc, cx, True)

    def s_forin(self, sc, cx):
        self.feat("forin")
        lsc = Scope(sc, "block")
        k = self.new_name(lsc, avoid_visible=True)
        lsc.add(Var(k, "let", "str", protected=True))
        src = self.expr(sc, cx, self.pick(["obj", "obj", "arr", "str"]), 1)
        return [("SForIn", ("FHDecl", self.pick(["KLet", "KConst"]), pid(k)), src, self.loop_body(lsc, cx))]

    def s_forof(self, sc, cx):
        self.feat("forof")
        lsc = Scope(sc, "block")
        src = self.expr(sc, cx, self.pick(["arr", "arr", "str"]), 1)
        g = self.vars_of(sc, lambda v: v.ty == "genfn" and not v.tdz)
        if g and self.chance(0.5):
            src = call(ident(self.pick(g).name))
            self.feat("forof_generator")
        if self.chance(0.2):
            p = ("PArr", [(pid("t1"), None), (pid("t2"), self.lit("int") if self.chance(0.3) else None)], None)
            lsc.add(Var("t1", "let", "any", protected=True))
            lsc.add(Var("t2", "let", "any", protected=True))
            src = arr(arr(self.lit("int"), self.lit("str")), arr(self.lit("int")))
            return [("SForOf", ("FHDecl", "KLet", p), src, self.loop_body(lsc, cx))]
        k = self.new_name(lsc, avoid_visible=True)
        lsc.add(Var(k, "let", "any", protected=True))
        return [("SForOf", ("FHDecl", self.pick(["KLet", "KConst", "KLet"]), pid(k)), src, self.loop_body(lsc, cx))]

    def s_switch(self, sc, cx):
        self.feat("switch")
        ssc = Scope(sc, "block")
        d = self.expr(sc, cx, "int", 1)
        cases = []
        scx = cx.but(in_switch=cx.in_switch + 1, depth=cx.depth + 1)
        n = self.rng.randrange(1, 4)
        vals = self.rng.sample([0, 1, 2, 3, 4, 5], n)
        dpos = self.rng.randrange(0, n + 1) if self.chance(0.6) else -1
        for i in range(n + 1):
            if i == dpos:
                body = self.stmts(ssc, scx, self.rng.randrange(0, 3))
                if self.chance(0.5):
                    body.append(("SBreak", None))
                cases.append((None, body))
            if i < n:
                body = self.stmts(ssc, scx, self.rng.randrange(0, 3))
                if self.chance(0.6):
                    body.append(("SBreak", None))
                else:
                    self.feat("switch_fallthrough")
                cases.append((num(vals[i]) if self.chance(0.8) else self.expr(sc, cx, "any", 2), body))
        return [("SSwitch", d, cases)]

    def s_label(self, sc, cx):
        self.feat("label")
        l = self.fresh("L")
        lcx = cx.but(labels=cx.labels + (l,))
        if self.chance(0.5):
            return [("SLabel", u(l), self.as_block(sc, lcx))]
        r = self.s_for(sc, lcx)
        r[-1] = ("SLabel", u(l), r[-1])
        return r

    def s_break(self, sc, cx):
        if cx.labels and self.chance(0.5):
            self.feat("break_label")
            return [("SBreak", u(self.pick(cx.labels)))]
        if cx.in_loop or cx.in_switch:
            st = ("SBreak", None)
            return [("SIf", self.cond(sc, cx), st, None)] if self.chance(0.6) else [st]
        return None

    def s_continue(self, sc, cx):
        st = ("SContinue", None)
        return [("SIf", self.cond(sc, cx), st, None)] if self.chance(0.7) else [st]

    def s_return(self, sc, cx):
        if cx.in_ctor:
            return None
        st = ("SReturn", self.expr(sc, cx, "any", 1) if self.chance(0.8) else None)
        return [("SIf", self.cond(sc, cx), st, None)] if self.chance(0.7) else [st]

    def s_throw(self, sc, cx):
        self.feat("throw")
        if self.chance(0.5):
            e = ("ENew", ident(self.pick(ERRORS)), [("Arg", estr("m"))])
        else:
            e = self.lit(self.pick(["int", "str"]))
        st = ("SThrow", e)
        if self.chance(0.5):
            return [guarded([("SIf", self.cond(sc, cx), st, None)] + self.block_body(sc, cx, 1))]
        return [("SIf", self.cond(sc, cx), st, None)]

    def s_try(self, sc, cx):
        self.feat("try")
        b = self.block_body(sc, cx)
        if self.chance(0.5):
            b.insert(self.rng.randrange(len(b) + 1), ("SThrow", self.lit("int") if self.chance(0.5) else ("ENew", ident(self.pick(ERRORS)), [])))
        h = None
        if self.chance(0.8):
            csc = Scope(sc, "block")
            csc.add(Var("e", "catch", "err"))
            hb = [pr(estr("c"), ("ELogical", "LOr", ("ELogical", "LAnd", ident("e"), member(ident("e"), "name")), ident("e")))] + self.stmts(csc, cx, self.rng.randrange(0, 2))
            h = (pid("e") if self.chance(0.9) else None, hb if True else [])
            if h[0] is None:
                h = (None, self.block_body(sc, cx, 1))
        f = None
        if h is None or self.chance(0.4):
            self.feat("finally")
            f = [pr(estr("f"))] + self.block_body(sc, cx.but(in_finally=cx.in_finally + 1), self.rng.randrange(0, 2))
        return [("STry", b, h, f)]

    def s_block(self, sc, cx):
        return [self.as_block(sc, cx)]

    def s_funcdecl(self, sc, cx):
        self.feat("function")
        style = self.weighted([("decl", 4), ("expr", 2), ("arrow", 2), ("named_expr", 0.7)])
        name = self.fresh("f")
        if style == "decl":
            if sc.kind == "block":
                return None    # function-in-block (Annex B) is outside the fragment
            fi, n = self.make_function(sc, cx, name=name)
            sc.add(Var(name, "func", "fn", level=fi))
            return [("SFunDecl", u(name), fi)]
        if style == "arrow":
            if self.chance(0.4):
                fsc = Scope(sc, "function")
                fsc.add(Var("t", "param", "num"))
                fi = self.add_func(func(kind="FArrow", params=[(pid("t"), None)], expr_body=self.expr(fsc, cx.but(in_func=True, is_arrow=True, in_loop=0, labels=(), in_switch=0), "any", 1),
                                        strict=cx.strict))
            else:
                fi, n = self.make_function(sc, cx, kind="FArrow")
            self.feat("arrow")
        elif style == "named_expr":
            fi, n = self.make_function(sc, cx, name=self.fresh("nf"))
        else:
            fi, n = self.make_function(sc, cx)
        sc.add(Var(name, "const", "fn", level=fi))
        return [("SDecl", "KConst", [(pid(name), ("EFunc", fi))])]

    def s_generator(self, sc, cx):
        if sc.kind == "block":
            return None
        self.feat("generator")
        name = self.fresh("g")

        def body(fsc, fcx):
            out = []
            for _ in range(self.rng.randrange(1, 4)):
                k = self.weighted([("yield", 4), ("stmt", 2), ("try", 1.5), ("loop", 1.2), ("recv", 1.2), ("star", 0.8)])
                if k == "yield":
                    out.append(("SYield", None, None, self.expr(fsc, fcx, "any", 1), False))
                elif k == "stmt":
                    out += self.stmt(fsc, fcx)
                elif k == "recv":
                    n = self.new_name(fsc, avoid_visible=True)
                    fsc.add(Var(n, "let", "any"))
                    out.append(("SYield", pid(n), "KLet", self.lit("int"), False))
                    out.append(pr(estr("got"), ident(n)))
                elif k == "star":
                    self.feat("yield_star")
                    out.append(("SYield", None, None, self.expr(fsc, fcx, self.pick(["arr", "str"]), 1), True))
                elif k == "loop":
                    i = self.fresh("j")
                    lsc = Scope(fsc, "block")
                    lsc.add(Var(i, "let", "int", protected=True))
                    out.append(("SFor", ("FIDecl", "KLet", [(pid(i), num(0))]), bin_("BLt", ident(i), num(self.rng.randrange(1, 4))),
                                ("EUpdate", False, True, ident(i)), ("SBlock", [("SYield", None, None, ident(i), False)] + self.stmts(lsc, fcx.but(in_loop=1), 1))))
                else:
                    self.feat("yield_in_try")
                    out.append(("STry", [("SYield", None, None, self.lit("int"), False), pr(estr("after"))],
                                catch_print("gc") if self.chance(0.5) else None,
                                [pr(estr("gf"))] + ([("SYield", None, None, estr("fin"), False)] if self.chance(0.3) else [])))
                    if out[-1][2] is None and out[-1][3] is None:
                        out[-1] = ("STry", out[-1][1], catch_print("gc"), None)
            return out
        fi, n = self.make_function(sc, cx, name=name, kind="FGenerator", gen_body=body, nparams=self.rng.randrange(0, 2))
        sc.add(Var(name, "func", "genfn", level=fi))
        return [("SFunDecl", u(name), fi)]

    def s_classdecl(self, sc, cx):
        self.feat("class")
        name = self.fresh("C")
        parents = self.vars_of(sc, lambda v: v.ty == "class" and not v.tdz)
        parent = self.pick(parents) if parents and self.chance(0.5) else None
        if parent is None and self.chance(0.1):
            parent_e = ident(self.pick(["Error", "Array", "Object"]))
            self.feat("extends_builtin")
        else:
            parent_e = ident(parent.name) if parent else None
        derived = parent_e is not None
        ccx = cx.but(strict=True, in_loop=0, labels=(), in_switch=0, in_func=True)
        saved = self.cur_strict
        self.cur_strict = True
        members = []
        fields = []
        # constructor
        ctor = None
        if self.chance(0.7):
            def cbody(fsc, fcx):
                fcx.in_ctor = True
                out = []
                if derived:
                    pre = [pr(estr(name + ".pre"))] if self.chance(0.4) else []
                    out += pre + [("SExpr", ("ESuperCall", [("Arg", self.expr(fsc, fcx, "any", 2))] if self.chance(0.6) else []))]
                out.append(pr(estr(name + ".ctor")))
                for _ in range(self.rng.randrange(0, 3)):
                    k = self.pick(KEYS[:5])
                    out.append(("SExpr", ("EAssign", ("PExpr", member(("EThis",), k)), self.expr(fsc, fcx, "any", 1))))
                return out
            ctor, _ = self.make_function(sc, ccx, name=name, kind="FCtorDerived" if derived else "FCtorBase", gen_body=cbody,
                                         nparams=self.rng.randrange(0, 3), allow_fancy=False)
        else:
            if derived:
                f = func(name=name, kind="FCtorDerived", rest=pid("args"), body=[("SExpr", ("ESuperCall", [("ArgSpread", ident("args"))]))], strict=True)
            else:
                f = func(name=name, kind="FCtorBase", body=[], strict=True)
            f["synthetic"] = True
            ctor = self.add_func(f)
        mnames = []
        for _ in range(self.rng.randrange(0, 4)):
            k = self.weighted([("method", 4), ("getter", 1.5), ("setter", 1), ("field", 3), ("static_method", 1), ("static_field", 1)])
            mn = self.pick(["m", "n", "k1", "k2", "val"])
            static = k.startswith("static")
            if (mn, static) in mnames:
                continue
            mnames.append((mn, static))
            key = ("PKStr", u(mn))
            if self.chance(0.1):
                key = ("PKComputed", ("ESeq", call(ident("print"), estr(name + ".key." + mn)), estr(mn)))
                self.feat("class_computed_key")
            if k in ("method", "static_method"):
                def mbody(fsc, fcx):
                    out = [pr(estr(name + "." + mn))]
                    if derived and not static and self.chance(0.4):
                        self.feat("super_member")
                        out.append(guarded([pr(estr("super"), ("ECall", ("ESuperMember", u(mn)), [], False))]))
                    out.append(("SReturn", self.expr(fsc, fcx, "any", 1) if self.chance(0.6) else member(("EThis",), self.pick(KEYS[:3]))))
                    return out
                fi, _ = self.make_function(sc, ccx, name=mn, kind="FMethod", gen_body=mbody, nparams=self.rng.randrange(0, 2), allow_fancy=False)
                members.append({"cm_static": static, "cm_kind": "MMethod", "cm_key": key, "cm_fidx": fi})
            elif k == "getter":
                fi, _ = self.make_function(sc, ccx, name=mn, kind="FGetter", nparams=0, allow_fancy=False,
                                           gen_body=lambda fsc, fcx: [pr(estr(name + ".get." + mn)), ("SReturn", self.expr(fsc, fcx, "any", 1))])
                members.append({"cm_static": False, "cm_kind": "MGetter", "cm_key": key, "cm_fidx": fi})
                self.feat("class_accessor")
            elif k == "setter":
                fi, _ = self.make_function(sc, ccx, name=mn, kind="FSetter", nparams=1, allow_fancy=False,
                                           gen_body=lambda fsc, fcx: [pr(estr(name + ".set." + mn))])
                members.append({"cm_static": False, "cm_kind": "MSetter", "cm_key": key, "cm_fidx": fi})
                self.feat("class_accessor")
            else:
                self.feat("class_field")
                fsc = Scope(sc, "function")
                init = ("ESeq", call(ident("print"), estr(name + ".field." + mn)), self.expr(fsc, ccx.but(in_method=True), "any", 2)) if self.chance(0.8) else None
                fi = None
                if init is not None:
                    fi = self.add_func(func(name=mn, kind="FFieldInit", expr_body=init, strict=True))
                members.append({"cm_static": static, "cm_kind": "MField", "cm_key": key, "cm_fidx": fi})
        self.cur_strict = saved
        ci = len(self.classes)
        self.classes.append({"c_name": u(name), "c_heritage": parent_e, "c_ctor": ctor, "c_members": members})
        v = sc.add(Var(name, "class", "class"))
        v.level = ci
        out = [("SClassDecl", u(name), ci)]
        # use it
        inst = self.fresh("o")
        nargs = [("Arg", self.lit("int")) for _ in range(self.rng.randrange(0, 2))]
        use = [let(inst, ("ENew", ident(name), nargs), "KConst")]
        kinds = {}
        for m in members:
            k0 = m["cm_key"]
            kn = "".join(map(chr, k0[1])) if k0[0] == "PKStr" else "".join(map(chr, k0[1][2][1]))
            kinds[(kn, m["cm_static"])] = m["cm_kind"]
        for (mn, static) in mnames[:3]:
            tgt = member(ident(name) if static else ident(inst), mn)
            mk = kinds.get((mn, static))
            if mk == "MMethod":
                use.append(pr(("ECall", tgt, [], False)) if self.chance(0.5) else ("SExpr", ("ECall", tgt, [], False)))
            elif mk == "MSetter":
                use.append(("SExpr", ("EAssign", ("PExpr", tgt), self.lit("int"))))
            else:
                use.append(pr(tgt))
        use.append(pr(mcall(mcall(ident("Object"), "keys", ident(inst)), "join")))
        out.append(guarded(use, "K"))
        return out

    def s_with(self, sc, cx):
        if cx.strict:
            return None
        self.feat("with")
        self.hermetic = False       # the body assigns an unqualified name that may fall through to the global object
        o = self.var_of_type(sc, "obj")
        src = ident(o.name) if o else self.lit("obj")
        wsc = Scope(sc, "block")
        body = [pr(ident(self.pick(KEYS[:3])) if self.chance(0.5) else self.expr(sc, cx, "any", 1))]
        v = self.var_of_type(sc, "num", assignable=True)
        if v and self.chance(0.5):
            body.append(("SExpr", assign(v.name, self.lit("int"))))
        body.append(("SExpr", assign("a", self.lit("int"))))
        return [guarded([("SWith", src, ("SBlock", body))], "W")] if True else None

    def s_eval(self, sc, cx):
        self.feat("direct_eval")
        esc = Scope(sc, "block")
        body = [pr(estr("ev"), self.expr(sc, cx, "any", 1))]
        if self.chance(0.5):
            n = self.fresh("ev")
            body.append(let(n, self.lit("int"), self.pick(["KLet", "KConst"])))
            body.append(("SExpr", ident(n)))
        else:
            body.append(("SExpr", self.expr(sc, cx, "any", 1)))
        t = None
        v = self.var_of_type(sc, "any", assignable=True)
        if v and self.chance(0.5):
            t = pid(v.name)
        return [("SDirectEval", t, body, False)]

    # ---------------------------------------------------------------- idioms: feature interactions (DESIGN 4/C01)
    def local_num(self, sc, cx, ty="num"):
        """declare a fresh local of the given type; returns (name, [decl stmt])"""
        n = self.new_name(sc, avoid_visible=True)
        kind = self.pick(["KLet", "KLet", "KVar"]) if sc.kind != "block" and self.var_ok(sc, n) else "KLet"
        sc.add(Var(n, "let" if kind == "KLet" else "var", ty))
        return n, [("SDecl", kind, [(pid(n), self.lit(ty))])]

    def s_i_operand_clobber(self, sc, cx):
        """x OP (x = e), x OP x++, f(x, x = e), [x, x++], x + (x += 1) ... : left operand must be read before the right side runs"""
        ty = self.pick(["num", "num", "str"])
        v = self.var_of_type(sc, ty, assignable=True) if self.chance(0.5) else None
        pre = []
        if v is None:
            n, pre = self.local_num(sc, cx, ty)
        else:
            n = v.name
        x = ident(n)
        side = self.weighted([("assign", 4), ("postinc", 2), ("preinc", 2), ("opassign", 2), ("call", 1)])
        if side == "assign":
            rhs = assign(n, self.lit(ty))
        elif side == "postinc":
            rhs = ("EUpdate", False, self.chance(0.7), x)
        elif side == "preinc":
            rhs = ("EUpdate", True, self.chance(0.7), x)
        elif side == "opassign":
            rhs = ("EOpAssign", self.pick(["BAdd", "BMul", "BSub"]), x, self.lit("int"))
        else:
            fi = self.add_func(func(kind="FArrow", params=[], expr_body=assign(n, self.lit(ty)), strict=cx.strict))
            fn = self.fresh("h")
            pre.append(let(fn, ("EFunc", fi), "KConst"))
            rhs = call(ident(fn))
        shape = self.weighted([("bin", 5), ("cmp", 1.5), ("call", 1.5), ("array", 1), ("opassign", 1.5), ("template", 0.7), ("index", 0.7), ("nested", 1)])
        if shape == "bin":
            e = bin_(self.pick(["BAdd", "BSub", "BMul", "BAdd", "BBitOr"]), x, rhs)
        elif shape == "cmp":
            e = bin_(self.pick(CMP_BIN), x, rhs)
        elif shape == "call":
            e = call(ident("print"), x, rhs, x)
        elif shape == "array":
            e = mcall(arr(x, rhs, x), "join")
        elif shape == "opassign":
            e = ("EOpAssign", self.pick(["BAdd", "BMul"]), x, rhs)
        elif shape == "template":
            e = ("ETemplate", [u(""), u("|"), u("")], [x, rhs])
        elif shape == "index":
            e = ("EIndex", arr(num(10), num(20), num(30), num(40), num(50), num(60), num(70)), bin_("BAdd", x, rhs), False)
        else:
            e = bin_("BAdd", bin_("BMul", x, num(2)), bin_("BAdd", rhs, x))
        return pre + [pr(e, x)]

    def s_i_update_coerce(self, sc, cx):
        """x++ / x-- / ++x on strings, booleans, null, undefined, objects with valueOf, bigint"""
        n = self.new_name(sc, avoid_visible=True)
        kind = self.pick(["str", "str", "bool", "null", "undef", "cobj", "bigint", "num"])
        init = self.coerce_obj(n) if kind == "cobj" else (estr(self.pick(["5", "1.5", "abc", "", " 7 "])) if kind == "str" else self.lit(kind))
        sc.add(Var(n, "let", "any"))
        q = self.fresh("q")
        sc.add(Var(q, "let", "any"))
        prefix, inc = self.chance(0.35), self.chance(0.7)
        tgt = ident(n)
        pre = [let(n, init)]
        if self.chance(0.25):
            on = self.fresh("ob")
            pre.append(let(on, obj(("p", ident(n))), "KConst"))
            tgt = member(ident(on), "p")
        return pre + [let(q, ("EUpdate", prefix, inc, tgt)), pr(ident(q), ("EUnary", "UTypeof", ident(q)), tgt, ("EUnary", "UTypeof", tgt))]

    def s_i_logassign_nested(self, sc, cx):
        """a logical assignment used as an operand: 'x' + (i ??= 3), on both the short-circuit and the assigning path"""
        op = self.pick(["LCoalesce", "LOr", "LAnd"])
        glob = sc.func_scope().kind == "global" or self.chance(0.3)
        v = self.var_of_type(sc, "num", assignable=True) if self.chance(0.6) else None
        pre = []
        if v is None:
            n = self.new_name(sc, avoid_visible=True)
            init = self.lit(self.pick(["int", "null", "undef", "int", "str"]))
            kind = self.pick(["KVar", "KLet"]) if sc.kind != "block" else "KLet"
            sc.add(Var(n, "var" if kind == "KVar" else "let", "any"))
            pre = [("SDecl", kind, [(pid(n), init)])]
        else:
            n = v.name
        tgt = ident(n)
        if self.chance(0.25):
            o = self.fresh("ob")
            pre.append(let(o, obj(("p", tgt)), "KConst"))
            tgt = member(ident(o), "p")
        la = ("ELogAssign", op, tgt, self.lit("int"))
        w = self.fresh("w")
        sc.add(Var(w, "let", "any"))
        shape = self.weighted([("strcat", 3), ("add", 2), ("call", 1), ("cond", 1)])
        if shape == "strcat":
            e = bin_("BAdd", estr("x"), la)
        elif shape == "add":
            e = bin_(self.pick(["BAdd", "BMul"]), self.lit("int"), la)
        elif shape == "call":
            e = mcall(arr(self.lit("int"), la), "join")
        else:
            e = ("ECond", la, estr("t"), estr("f"))
        return pre + [let(w, e), pr(ident(w), tgt)]

    def s_i_int_edge(self, sc, cx):
        """integer fast paths at their edges with non-constant operands"""
        a, pa = self.local_num(sc, cx)
        b, pb = self.local_num(sc, cx)
        EDGE = [-2147483648, 2147483647, -1, 0, 1, -0.0, 2147483648, 4294967295, 65536, 46341, -46341, 1073741824, 3, 7, 0.5]
        pa = [(pa[0][0], pa[0][1], [(pid(a), num(self.pick(EDGE)))])]
        pb = [(pb[0][0], pb[0][1], [(pid(b), num(self.pick(EDGE)))])]
        ops = self.rng.sample(["BMod", "BDiv", "BMul", "BAdd", "BSub", "BShl", "BShr", "BUShr", "BBitAnd", "BBitOr", "BBitXor"], 3)
        out = pa + pb
        if self.chance(0.5):
            ops[0] = "BMod"
        for op in ops:
            e = bin_(op, ident(a), ident(b))
            out.append(guarded([pr(e) if self.chance(0.7) else pr(e, bin_("BDiv", num(1), e))]))      # 1/x shows the sign of a zero
        if self.chance(0.4):
            out.append(pr(("EUnary", "UNeg", ident(a)), ("EUpdate", True, True, ident(a)), ("EUpdate", False, False, ident(b))))
        if self.chance(0.3):
            out.append(pr(bin_("BExp", num(self.pick([2, 3, -2, 10])), num(self.pick([0, 1, 2, 3, 10, 31])))))
        if self.chance(0.25):
            # exponent NaN / +-0 (exactly specified: NaN resp. 1), with a non-constant operand
            out.append(let(a + "e", num(self.pick([float("nan"), 0, -0.0, float("nan")]))))
            out.append(pr(bin_("BExp", self.pick([num(1), num(-1), num(2), ident(a), num(float("nan"))]), ident(a + "e"))))
        return out

    def s_i_param_scope(self, sc, cx):
        """default-parameter closures x body declarations of the same name (FunctionDeclarationInstantiation 27-28)"""
        if sc.kind == "block":
            return None
        fname = self.fresh("f")
        a = self.pick(["a", "p", "x"])
        cap_kind = self.pick(["arrow", "arrow", "function", "direct"])
        body_decl = self.weighted([("var_init", 4), ("var_noinit", 2), ("function", 1.5), ("none", 1), ("let_other", 0.7)])
        if cap_kind == "direct":
            bdef = bin_("BAdd", ident(a), num(1))
        else:
            inner = ident(a) if self.chance(0.7) else ("EUpdate", False, True, ident(a))
            fi = self.add_func(func(kind="FArrow" if cap_kind == "arrow" else "FNormal", params=[], expr_body=inner if cap_kind == "arrow" else None,
                                    body=[] if cap_kind == "arrow" else [("SReturn", inner)], strict=cx.strict))
            bdef = ("EFunc", fi)
        body = []
        if body_decl == "var_init":
            body.append(("SDecl", "KVar", [(pid(a), self.lit("int"))]))
        elif body_decl == "var_noinit":
            body.append(("SDecl", "KVar", [(pid(a), None)]))
            if self.chance(0.5):
                body.append(pr(estr("pre"), ident(a)))
                body.append(("SExpr", assign(a, self.lit("int"))))
        elif body_decl == "function":
            gi = self.add_func(func(name=a, kind="FNormal", body=[("SReturn", num(9))], strict=cx.strict))
            body.append(("SFunDecl", u(a), gi))
        elif body_decl == "let_other":
            body.append(let("zz", ident(a)))
        bcall = call(ident("b")) if cap_kind != "direct" else ident("b")
        shown = ("EUnary", "UTypeof", ident(a)) if body_decl == "function" else ident(a)
        body.append(pr(estr(fname), bcall, shown))
        if cap_kind != "direct" and self.chance(0.5):
            body.append(("SExpr", assign(a, estr("w"))) if body_decl != "function" else ("SEmpty",))
            body.append(pr(estr(fname + "2"), bcall, shown))
        body.append(("SReturn", bcall))
        params = [(pid(a), None), (pid("b"), bdef)]
        if self.chance(0.2):
            params.insert(1, (pid("c"), ("ESeq", call(ident("print"), estr("dc")), ident(a))))
        uses_args = False
        if self.chance(0.15):
            uses_args = True
            body.insert(0, pr(estr("al"), member(ident("arguments"), "length")))
        fi = self.add_func(func(name=fname, kind="FNormal", params=params, body=body, strict=cx.strict, uses_args=uses_args))
        sc.add(Var(fname, "func", "fn", level=fi))
        return [("SFunDecl", u(fname), fi), guarded([pr(call(ident(fname), self.lit("int")))], "PS")]

    def s_i_obj_rest_nested(self, sc, cx):
        """object rest after nested / computed / defaulted property patterns: the rest excludes exactly the named keys"""
        ks = self.rng.sample(["a", "b", "c", "d"], 3)
        names = [self.fresh("n") for _ in range(3)]
        r = self.fresh("r")
        props = []
        shapes = []
        for k, n in zip(ks[:2], names):
            sh = self.weighted([("nested_obj", 3), ("nested_arr", 1.5), ("plain", 2), ("computed", 1), ("default", 1)])
            shapes.append(sh)
            if sh == "nested_obj":
                props.append((("PKStr", u(k)), ("PObj", [(("PKStr", u("x")), pid(n), None)], None), None))
            elif sh == "nested_arr":
                props.append((("PKStr", u(k)), ("PArr", [(pid(n), None)], None), None))
            elif sh == "computed":
                props.append((("PKComputed", estr(k)), pid(n), None))
            elif sh == "default":
                props.append((("PKStr", u(k)), pid(n), self.lit("int")))
            else:
                props.append((("PKStr", u(k)), pid(n), None))

        def val(sh):
            return {"nested_obj": obj(("x", self.lit("int"))), "nested_arr": arr(self.lit("int"))}.get(sh, self.lit("int"))
        src = [(ks[0], val(shapes[0])), (ks[1], val(shapes[1])), (ks[2], self.lit("int")), ("z", self.lit("str"))]
        self.rng.shuffle(src)
        pat = ("PObj", props, pid(r))
        kind = self.pick(["KVar", "KLet", "KConst"]) if sc.kind != "block" else self.pick(["KLet", "KConst"])
        tgt = sc.func_scope() if kind == "KVar" else sc
        for n in names[:2] + [r]:
            tgt.add(Var(n, "let", "any" if n != r else "obj"))
        if self.chance(0.25):
            # as parameter pattern
            fi = self.add_func(func(kind="FArrow", params=[(pat, None)], expr_body=mcall(mcall(ident("Object"), "keys", ident(r)), "join"), strict=cx.strict))
            return [pr(call(("EFunc", fi), obj(*src)))]
        return [("SDecl", kind, [(pat, obj(*src))]), pr(mcall(mcall(ident("Object"), "keys", ident(r)), "join"), ident(names[0]), ident(names[1]))]

    def s_i_switch_tdz(self, sc, cx):
        """lexical declarations inside switch cases reached / skipped through other cases"""
        n = self.fresh("s")
        o = self.fresh("t")
        sel = self.rng.randrange(0, 3)
        kind = self.pick(["KLet", "KLet", "KConst"])
        use = pr(estr("u"), ident(n)) if self.chance(0.6) else ("SExpr", assign(n, num(7)))
        cases = [(num(0), [("SDecl", kind, [(pid(n), self.lit("int"))]), pr(estr("c0"), ident(n))] + ([("SBreak", None)] if self.chance(0.3) else [])),
                 (num(1), [use, pr(estr("c1"))] + ([("SBreak", None)] if self.chance(0.5) else [])),
                 (num(2), [let(o, self.lit("int")), pr(estr("c2"), ident(o)), guarded([pr(ident(n))], "T")])]
        if self.chance(0.3):
            fi = self.add_func(func(kind="FArrow", params=[], expr_body=ident(n), strict=cx.strict))
            cases[1] = (num(1), [pr(estr("cl"), call(("EFunc", fi)))])
        if self.chance(0.3):
            cases.append((None, [pr(estr("d"))]))
            self.rng.shuffle(cases)
        pre = [let(self.fresh("pad"), self.lit("int")) for _ in range(self.rng.randrange(0, 3))]
        for p in pre:
            sc.add(Var(p[2][0][0][1] and "".join(map(chr, p[2][0][0][1])), "let", "num"))
        return pre + [guarded([("SSwitch", num(sel), cases)], "S"), pr(estr("after"))]

    def s_i_finally_flow(self, sc, cx):
        """finally x break/continue/return, nested try, completion overriding"""
        l = self.fresh("L")
        i = self.fresh("i")

        def jump():
            k = self.weighted([("break", 2), ("continue", 3), ("break_l", 1.5), ("continue_l", 2), ("throw", 2), ("return", 2 if cx.in_func else 0), ("none", 1)])
            return {"break": ("SBreak", None), "continue": ("SContinue", None), "break_l": ("SBreak", u(l)), "continue_l": ("SContinue", u(l)),
                    "throw": ("SThrow", estr("t" + str(self.rng.randrange(9)))), "return": ("SReturn", estr("r")), "none": ("SEmpty",)}[k]

        def cnd(st):
            return ("SIf", bin_(self.pick(["BSEq", "BLt", "BSNe"]), ident(i), num(self.rng.randrange(0, 3))), st, None) if self.chance(0.6) else st
        inner = ("STry", [pr(estr("t"), ident(i)), cnd(jump())], catch_print("c") if self.chance(0.5) else None, [pr(estr("f"), ident(i)), cnd(jump())])
        if self.chance(0.4):
            inner = ("STry", [inner, pr(estr("t2"))], catch_print("c2") if self.chance(0.5) else None, [pr(estr("f2")), cnd(jump())])
        loop = ("SFor", ("FIDecl", "KLet", [(pid(i), num(0))]), bin_("BLt", ident(i), num(3)), ("EUpdate", False, True, ident(i)), ("SBlock", [inner, pr(estr("e"), ident(i))]))
        if self.chance(0.3):
            loop = ("SFor", ("FIDecl", "KLet", [(pid(i + "o"), num(0))]), bin_("BLt", ident(i + "o"), num(2)), ("EUpdate", False, True, ident(i + "o")), ("SBlock", [loop]))
        return [guarded([("SLabel", u(l), loop)], "FF"), pr(estr("done"))]

    def s_i_destruct_defaults(self, sc, cx):
        """evaluation order of defaults, computed keys, getters and iterator closing in destructuring"""
        tag = self.fresh("D")

        def p(t, e):
            return ("ESeq", call(ident("print"), estr(tag + t)), e)
        k = self.weighted([("obj", 3), ("arr", 3), ("assign_members", 2), ("iter_close", 2)])
        a, b = self.fresh("x"), self.fresh("y")
        sc.add(Var(a, "let", "any"))
        sc.add(Var(b, "let", "any"))
        if k == "obj":
            gi = self.add_func(func(name="a", kind="FGetter", body=[pr(estr(tag + "get")), ("SReturn", self.lit(self.pick(["int", "undef"])))], strict=cx.strict))
            src = ("EObject", [("PGet", ("PKStr", u("a")), gi), ("PInit", ("PKStr", u("b")), self.lit(self.pick(["int", "undef", "null"])))])
            pat = ("PObj", [(("PKComputed", p("k1", estr("a"))), pid(a), p("d1", self.lit("int"))),
                            (("PKStr", u("b")), pid(b), p("d2", ident(a)))], None)
            return [("SDecl", "KLet", [(pat, src)]), pr(ident(a), ident(b))]
        if k == "arr":
            pat = ("PArr", [(pid(a), p("d1", self.lit("int"))), None if self.chance(0.3) else (pid(b), p("d2", ident(a)))], None)
            src = arr(*[self.lit(self.pick(["int", "undef"])) for _ in range(self.rng.randrange(0, 3))])
            return [("SDecl", self.pick(["KLet", "KConst"]), [(pat, src)]), pr(ident(a), ident(b) if pat[1][1] is not None else estr("-"))]
        if k == "assign_members":
            o = self.fresh("ob")
            pat = ("PArr", [(("PExpr", member(p("t1", ident(o)), "u")), p("d1", num(1))), (("PExpr", ("EIndex", ident(o), p("t2", estr("v")), False)), None)], None)
            return [let(o, obj(), "KConst"), let(a, num(0)), let(b, num(0)),
                    ("SExpr", ("EAssign", pat, arr(self.lit(self.pick(["int", "undef"])), self.lit("int")))), pr(member(ident(o), "u"), member(ident(o), "v"))]
        # iterator closing: destructuring takes fewer elements than the generator yields
        g = self.fresh("g")
        gi = self.add_func(func(name=g, kind="FGenerator", body=[("STry", [("SYield", None, None, num(1), False), ("SYield", None, None, num(2), False), ("SYield", None, None, num(3), False)],
                                                                 None, [pr(estr(tag + "fin"))])], strict=cx.strict))
        if sc.kind == "block":
            pre = let(g, ("EFunc", gi), "KConst")
        else:
            pre = ("SFunDecl", u(g), gi)
        n = self.rng.randrange(0, 5)
        els = [(pid(a), None), (pid(b), None), None, None][:n]
        rest = pid(self.fresh("rest")) if self.chance(0.3) else None
        out = [pre, ("SDecl", "KLet", [(("PArr", els, rest), call(ident(g)))])]
        if n == 0:
            out += [let(a, num(0))]
        if n < 2:
            out += [let(b, num(0))]
        return out + [pr(ident(a), ident(b))]

    def s_i_class_order(self, sc, cx):
        """class definition evaluation order: heritage, computed keys, static fields, instance fields vs super()"""
        A, B = self.fresh("A"), self.fresh("B")

        def p(t, e):
            return ("ESeq", call(ident("print"), estr(t)), e)

        def field(cls, nm, static, init):
            fi = self.add_func(func(name=nm, kind="FFieldInit", expr_body=p(cls + ".f." + nm, init), strict=True))
            return {"cm_static": static, "cm_kind": "MField", "cm_key": ("PKComputed", p(cls + ".k." + nm, estr(nm))) if self.chance(0.4) else ("PKStr", u(nm)), "cm_fidx": fi}
        actor = self.add_func(func(name=A, kind="FCtorBase", params=[(pid("v"), None)], strict=True,
                                   body=[pr(estr(A + ".ctor"), mcall(mcall(ident("Object"), "keys", ("EThis",)), "join")), ("SExpr", ("EAssign", ("PExpr", member(("EThis",), "v")), ident("v")))]))
        am = self.add_func(func(name="m", kind="FMethod", body=[("SReturn", estr(A + ".m"))], strict=True))
        amembers = [field(A, "x", False, self.lit("int")), {"cm_static": False, "cm_kind": "MMethod", "cm_key": ("PKStr", u("m")), "cm_fidx": am}]
        if self.chance(0.5):
            amembers.append(field(A, "s", True, self.lit("int")))
        ai = len(self.classes)
        self.classes.append({"c_name": u(A), "c_heritage": None, "c_ctor": actor, "c_members": amembers})
        pre_super = self.weighted([("nothing", 3), ("this_access", 1.5), ("print", 2)])
        bbody = []
        if pre_super == "this_access":
            bbody.append(guarded([pr(("EThis",))], "TH"))
        elif pre_super == "print":
            bbody.append(pr(estr(B + ".pre")))
        bbody.append(("SExpr", ("ESuperCall", [("Arg", p(B + ".arg", self.lit("int")))])))
        bbody.append(pr(estr(B + ".post"), mcall(mcall(ident("Object"), "keys", ("EThis",)), "join")))
        if self.chance(0.3):
            bbody.append(guarded([("SExpr", ("ESuperCall", []))], "SS"))
        bctor = self.add_func(func(name=B, kind="FCtorDerived", body=bbody, strict=True))
        bm = self.add_func(func(name="m", kind="FMethod", body=[("SReturn", bin_("BAdd", estr(B + ".m>"), ("ECall", ("ESuperMember", u("m")), [], False)))], strict=True))
        bmembers = [field(B, "y", False, member(("EThis",), "x") if self.chance(0.5) else self.lit("int")),
                    {"cm_static": False, "cm_kind": "MMethod", "cm_key": ("PKStr", u("m")), "cm_fidx": bm}]
        if self.chance(0.5):
            bmembers.insert(0, field(B, "t", True, self.lit("str")))
        bi = len(self.classes)
        self.classes.append({"c_name": u(B), "c_heritage": p(B + ".ext", ident(A)), "c_ctor": bctor, "c_members": bmembers})
        o = self.fresh("o")
        sc.add(Var(A, "class", "class"))
        sc.add(Var(B, "class", "class"))
        return [("SClassDecl", u(A), ai), ("SClassDecl", u(B), bi),
                guarded([let(o, ("ENew", ident(B), []), "KConst"), pr(mcall(ident(o), "m"), member(ident(o), "x"), member(ident(o), "y"), member(ident(o), "v"),
                                                                      bin_("BInstanceof", ident(o), ident(A)))], "CO")]

    def s_i_coerce_order(self, sc, cx):
        """order and count of ToPrimitive calls across operators"""
        a, b = self.fresh("ca"), self.fresh("cb")
        pre = [let(a, self.coerce_obj(a), "KConst"), let(b, self.coerce_obj(b), "KConst")]
        op = self.weighted([("bin", 5), ("cmp", 3), ("index", 1), ("template", 1), ("opassign", 1.5), ("unary", 1), ("eqprim", 1.5)])
        A, B = ident(a), ident(b)
        if op == "bin":
            e = bin_(self.pick(NUM_BIN), A, B)
        elif op == "cmp":
            e = bin_(self.pick(["BLt", "BGt", "BLe", "BGe", "BEq", "BNe"]), A, B)
        elif op == "index":
            e = ("EIndex", obj(("1", estr("one")), ("a", estr("A"))), A, False)
        elif op == "template":
            e = ("ETemplate", [u(""), u("-"), u("")], [A, B])
        elif op == "opassign":
            t = self.fresh("acc")
            pre.append(let(t, self.lit(self.pick(["int", "str"]))))
            e = ("EOpAssign", self.pick(["BAdd", "BMul", "BSub"]), ident(t), bin_("BAdd", A, B))
        elif op == "unary":
            e = ("EUnary", self.pick(["UNeg", "UPos", "UBitNot", "UNot"]), A)
        else:
            e = bin_(self.pick(["BEq", "BNe", "BAdd", "BLt"]), A, self.lit(self.pick(["int", "str", "null", "bool"])))
        return pre + [guarded([pr(e)], "CE")]

    def s_i_tdz_closure(self, sc, cx):
        """temporal dead zone through closures, loops and typeof"""
        n = self.fresh("z")
        f = self.fresh("rd")
        fi = self.add_func(func(kind="FArrow", params=[], expr_body=ident(n), strict=cx.strict))
        k = self.weighted([("closure_before", 3), ("typeof", 1.5), ("self_init", 1.5), ("loop", 1.5), ("assign_before", 1.5)])
        decl = ("SDecl", self.pick(["KLet", "KConst"]), [(pid(n), self.lit("int"))])
        if k == "closure_before":
            out = [let(f, ("EFunc", fi), "KConst"), guarded([pr(estr("b"), call(ident(f)))], "Z"), decl, pr(estr("a"), call(ident(f)))]
        elif k == "typeof":
            out = [guarded([pr(("EUnary", "UTypeof", ident(n)))], "Z"), decl]
        elif k == "self_init":
            out = [guarded([("SDecl", "KLet", [(pid(n), bin_("BAdd", ident(n), num(1)))])], "Z")]
            return [("SBlock", out)]
        elif k == "loop":
            i = self.fresh("i")
            out = [("SFor", ("FIDecl", "KLet", [(pid(i), num(0))]), bin_("BLt", ident(i), num(2)), ("EUpdate", False, True, ident(i)),
                    ("SBlock", [guarded([pr(estr("l"), ident(n))], "Z"), decl, pr(ident(n))]))]
            return out
        else:
            out = [guarded([("SExpr", assign(n, num(1)))], "Z"), ("SDecl", "KLet", [(pid(n), self.lit("int"))]), pr(ident(n))]
        return [("SBlock", out)]

    def s_i_gen_protocol(self, sc, cx):
        """next(v) / return(v) / throw(e) against try/finally inside generators, yield* delegation"""
        g = self.fresh("g")
        it = self.fresh("it")
        tag = g
        inner = [("SYield", pid("r1"), "KLet", num(1), False), pr(estr(tag + "r1"), ident("r1")), ("SYield", None, None, num(2), False)]
        body = [("STry", inner, catch_print(tag + "c") if self.chance(0.5) else None,
                 [pr(estr(tag + "f"))] + ([("SYield", None, None, estr("fy"), False)] if self.chance(0.3) else []) + ([("SReturn", estr("fr"))] if self.chance(0.2) else []))]
        if body[0][2] is None and not body[0][3]:
            body[0] = ("STry", inner, None, [pr(estr(tag + "f"))])
        body.append(("SYield", None, None, num(3), False))
        body.append(("SReturn", estr("end")))
        gi = self.add_func(func(name=g, kind="FGenerator", body=body, strict=cx.strict))
        pre = let(g, ("EFunc", gi), "KConst") if sc.kind == "block" else ("SFunDecl", u(g), gi)
        if self.chance(0.3):
            g2 = self.fresh("g")
            g2i = self.add_func(func(name=g2, kind="FGenerator", body=[("SYield", None, None, estr("pre"), False), ("SYield", pid("res"), "KLet", call(ident(g)), True),
                                                                       pr(estr("res"), ident("res"))], strict=cx.strict))
            pre2 = let(g2, ("EFunc", g2i), "KConst") if sc.kind == "block" else ("SFunDecl", u(g2), g2i)
            use_g = g2
            pres = [pre, pre2]
            self.feat("yield_star")
        else:
            use_g, pres = g, [pre]

        def show(e):
            r = self.fresh("r")
            return [let(r, e, "KConst"), pr(member(ident(r), "value"), member(ident(r), "done"))]
        out = pres + [let(it, call(ident(use_g)), "KConst")]
        for _ in range(self.rng.randrange(1, 5)):
            k = self.weighted([("next", 4), ("nextv", 2), ("return", 1.5), ("throw", 1.5)])
            if k == "next":
                out += show(mcall(ident(it), "next"))
            elif k == "nextv":
                out += show(mcall(ident(it), "next", self.lit("int")))
            elif k == "return":
                out += show(mcall(ident(it), "return", self.lit("str")))
            else:
                out.append(guarded(show(mcall(ident(it), "throw", self.lit("str"))), "GT"))
        return out

    def s_i_compound_member(self, sc, cx):
        """o[k()] op= v(), o.p++ with getters/setters: key evaluated once, order base-key-get-rhs-set"""
        o = self.fresh("ob")
        tag = o

        def p(t, e):
            return ("ESeq", call(ident("print"), estr(tag + t)), e)
        gi = self.add_func(func(name="a", kind="FGetter", body=[pr(estr(tag + ".get")), ("SReturn", self.lit(self.pick(["int", "str"])))], strict=cx.strict))
        si = self.add_func(func(name="a", kind="FSetter", params=[(pid("v"), None)], body=[pr(estr(tag + ".set"), ident("v"))], strict=cx.strict))
        src = ("EObject", [("PGet", ("PKStr", u("a")), gi), ("PSet", ("PKStr", u("a")), si), ("PInit", ("PKStr", u("b")), self.lit("int"))])
        k = self.weighted([("opassign", 3), ("update", 2), ("logassign", 2), ("assign", 1)])
        # (V8 converts a non-primitive key twice in compound / logical assignment and update: such keys only in plain assignment)
        key = p(".k", estr(self.pick(["a", "b"]))) if self.chance(0.6) or k in ("opassign", "update", "logassign") else self.coerce_obj(tag + "key", val=estr(self.pick(["a", "b"])), kind="toString")
        tgt = ("EIndex", p(".o", ident(o)), key, False)
        if k == "opassign":
            e = ("EOpAssign", self.pick(["BAdd", "BMul", "BSub"]), tgt, p(".r", self.lit("int")))
        elif k == "update":
            e = ("EUpdate", self.chance(0.5), True, tgt)
        elif k == "logassign":
            e = ("ELogAssign", self.pick(["LAnd", "LOr", "LCoalesce"]), tgt, p(".r", self.lit("int")))
        else:
            e = ("EAssign", ("PExpr", tgt), p(".r", self.lit("int")))
        return [let(o, src, "KConst"), pr(e), pr(member(ident(o), "b"))]

    def s_i_args_object(self, sc, cx):
        if sc.kind == "block":
            return None
        f = self.fresh("fa")
        strict = cx.strict or self.chance(0.3)
        body = [pr(member(ident("arguments"), "length"), ("EIndex", ident("arguments"), num(0), False), ident("a")),
                ("SExpr", assign("a", num(9))), pr(("EIndex", ident("arguments"), num(0), False), ident("a")),
                ("SExpr", ("EAssign", ("PExpr", ("EIndex", ident("arguments"), num(1), False)), num(8))), pr(ident("b"), mcall(arr(("ASpreadX",)), "join") if False else member(ident("arguments"), "length"))]
        params = [(pid("a"), None), (pid("b"), self.lit("int") if self.chance(0.4) else None)]
        if self.chance(0.3):
            body.append(pr(mcall(("EArray", [("ASpread", ident("arguments"))]), "join")))
        # JSRef models the unmapped arguments object only: strict function, or non-simple parameters
        fi = self.add_func(func(name=f, kind="FNormal", params=params, body=body, strict=True if all(d is None for _, d in params) else cx.strict, uses_args=True))
        sc.add(Var(f, "func", "fn", level=fi))
        args = [self.lit("int") for _ in range(self.rng.randrange(0, 4))]
        return [("SFunDecl", u(f), fi), ("SExpr", call(ident(f), *args))]

    def s_i_getter_setter(self, sc, cx):
        o = self.fresh("ob")
        gi = self.add_func(func(name="v", kind="FGetter", body=[pr(estr(o + ".get")), ("SReturn", member(("EThis",), "_v"))], strict=cx.strict))
        si = self.add_func(func(name="v", kind="FSetter", params=[(pid("x"), None)], body=[pr(estr(o + ".set"), ident("x")), ("SExpr", ("EAssign", ("PExpr", member(("EThis",), "_v")), ident("x")))], strict=cx.strict))
        src = ("EObject", [("PInit", ("PKStr", u("_v")), self.lit("int")), ("PGet", ("PKStr", u("v")), gi), ("PSet", ("PKStr", u("v")), si)])
        c = self.fresh("ch")
        out = [let(o, src, "KConst"), let(c, mcall(ident("Object"), "create", ident(o)), "KConst")]
        out.append(("SExpr", ("EAssign", ("PExpr", member(ident(c), "v")), self.lit("int"))))
        out.append(pr(member(ident(c), "v"), member(ident(o), "_v"), mcall(mcall(ident("Object"), "keys", ident(c)), "join")))
        if self.chance(0.5):
            out.append(("SExpr", mcall(ident("Object"), "defineProperty", ident(c), estr("w"), obj(("value", self.lit("int")), ("writable", ("EBool", False)), ("enumerable", ("EBool", self.chance(0.5)))))))
            out.append(guarded([("SExpr", ("EAssign", ("PExpr", member(ident(c), "w")), num(5))), pr(member(ident(c), "w"))], "GS"))
        if self.chance(0.4):
            out.append(guarded([("SExpr", mcall(ident("Object"), "freeze", ident(o))), ("SExpr", ("EAssign", ("PExpr", member(ident(o), "_v")), num(77))), pr(member(ident(o), "_v"))], "FZ"))
        sc.add(Var(o, "const", "obj"))
        return out

    def s_i_completion(self, sc, cx):
        """completion values of statements (observable through eval / script completion)"""
        v = self.lit("int")
        k = self.weighted([("if_empty", 2), ("loop_break", 2), ("try_finally", 2), ("switch", 1.5), ("label", 1), ("if_lit", 2), ("while_false", 1.5)])
        if k == "if_empty":
            body = [("SExpr", v), ("SIf", self.cond(sc, cx), ("SBlock", []), None)]
        elif k == "loop_break":
            i = self.fresh("i")
            body = [("SExpr", v), ("SFor", ("FIDecl", "KLet", [(pid(i), num(0))]), bin_("BLt", ident(i), num(2)), ("EUpdate", False, True, ident(i)),
                                   ("SBlock", [("SExpr", ident(i)), ("SIf", bin_("BSEq", ident(i), num(self.rng.randrange(0, 3))), ("SBreak", None), None)]))]
        elif k == "try_finally":
            body = [("SExpr", v), ("STry", [("SExpr", estr("t"))] if self.chance(0.7) else [], None, [("SExpr", estr("f"))])]
        elif k == "switch":
            body = [("SExpr", v), ("SSwitch", self.lit("int"), [(num(1), [("SExpr", estr("one"))]), (None, [("SBreak", None)] if self.chance(0.5) else [])])]
        elif k == "label":
            l = self.fresh("L")
            body = [("SExpr", v), ("SLabel", u(l), ("SBlock", [("SExpr", estr("in")), ("SBreak", u(l))]))]
        elif k == "if_lit":
            body = [("SExpr", v), ("SIf", ("EBool", self.chance(0.5)), ("SBlock", [] if self.chance(0.5) else [("SExpr", estr("t"))]), ("SBlock", []) if self.chance(0.4) else None)]
        else:
            body = [("SExpr", v), ("SWhile", ("EBool", False), ("SBlock", []))]
        w = self.fresh("cv")
        sc.add(Var(w, "let", "any"))
        return [let(w, undefined()), ("SDirectEval", pid(w), body, False), pr(estr("cv"), ident(w))]

    def s_i_spread_iter(self, sc, cx):
        it = self.fresh("itr")
        tag = it
        # a hand-written iterator with a return method
        nx = self.add_func(func(name="next", kind="FMethod", body=[pr(estr(tag + ".next")), ("SReturn", obj(("done", bin_("BGt", ("EUpdate", True, True, member(("EThis",), "i")), num(self.rng.randrange(1, 4)))), ("value", member(("EThis",), "i"))))], strict=cx.strict))
        rt = self.add_func(func(name="return", kind="FMethod", body=[pr(estr(tag + ".return")), ("SReturn", obj() if self.chance(0.8) else num(1))], strict=cx.strict))
        si = self.add_func(func(name="[Symbol.iterator]", kind="FMethod", body=[pr(estr(tag + ".iter")), ("SReturn", ("EThis",))], strict=cx.strict))
        src = ("EObject", [("PInit", ("PKStr", u("i")), num(0)), ("PMethod", ("PKStr", u("next")), nx), ("PMethod", ("PKStr", u("return")), rt),
                           ("PMethod", ("PKComputed", member(ident("Symbol"), "iterator")), si)])
        k = self.weighted([("spread", 2), ("forof_break", 2), ("destruct", 2), ("call_spread", 1), ("forof_throw", 1)])
        out = [let(it, src, "KConst")]
        if k == "spread":
            out.append(pr(mcall(("EArray", [("AElem", num(0)), ("ASpread", ident(it))]), "join")))
        elif k == "forof_break":
            out.append(("SForOf", ("FHDecl", "KConst", pid("q")), ident(it), ("SBlock", [pr(estr("q"), ident("q")), ("SIf", bin_("BSEq", ident("q"), num(self.rng.randrange(1, 3))), ("SBreak", None), None)])))
        elif k == "forof_throw":
            out.append(guarded([("SForOf", ("FHDecl", "KConst", pid("q")), ident(it), ("SBlock", [pr(estr("q"), ident("q")), ("SThrow", estr("boom"))]))], "FO"))
        elif k == "destruct":
            a, b = self.fresh("x"), self.fresh("y")
            out.append(guarded([("SDecl", "KLet", [(("PArr", [(pid(a), None), (pid(b), None)][:self.rng.randrange(0, 3)], None), ident(it))]), pr(estr("dd"))], "DI"))
        else:
            out.append(pr(mcall(ident("Math"), "max", ("ArgSpreadMarker",))) if False else pr(("ECall", member(ident("Math"), "max"), [("ArgSpread", ident(it))], False)))
        return out

    def s_i_label_loops(self, sc, cx):
        lo, li = self.fresh("Lo"), self.fresh("Li")
        i, j = self.fresh("i"), self.fresh("j")
        act = self.pick([("SContinue", u(lo)), ("SBreak", u(lo)), ("SContinue", u(li)), ("SBreak", u(li)), ("SContinue", None), ("SBreak", None)])
        inner_body = [("SIf", bin_("BSEq", bin_("BAdd", ident(i), ident(j)), num(self.rng.randrange(0, 4))), act, None), pr(ident(i), ident(j))]
        inner_kind = self.pick(["for", "while", "dowhile", "forof"])
        if inner_kind == "for":
            inner = ("SFor", ("FIDecl", "KLet", [(pid(j), num(0))]), bin_("BLt", ident(j), num(2)), ("EUpdate", False, True, ident(j)), ("SBlock", inner_body))
            pre = []
        elif inner_kind == "forof":
            inner = ("SForOf", ("FHDecl", "KConst", pid(j)), arr(num(0), num(1)), ("SBlock", inner_body))
            pre = []
        else:
            pre = [let(j, num(-1))]
            body = ("SBlock", [("SExpr", ("EUpdate", False, True, ident(j)))] + inner_body)
            inner = ("SWhile", bin_("BLt", ident(j), num(1)), body) if inner_kind == "while" else ("SDoWhile", body, bin_("BLt", ident(j), num(1)))
        outer = ("SFor", ("FIDecl", "KLet", [(pid(i), num(0))]), bin_("BLt", ident(i), num(2)), ("EUpdate", False, True, ident(i)),
                 ("SBlock", pre + [("SLabel", u(li), inner), pr(estr("o"), ident(i))]))
        return [("SLabel", u(lo), outer)]

    def s_i_closure_loop(self, sc, cx):
        fs = self.fresh("fs")
        i = self.fresh("i")
        kind = self.pick(["KLet", "KLet", "KVar"]) if sc.kind != "block" else "KLet"
        if kind == "KVar":
            sc.func_scope().add(Var(i, "var", "int", protected=True))
        body_extra = [("SExpr", ("EUpdate", False, True, ident(i)))] if self.chance(0.3) else []
        fi = self.add_func(func(kind="FArrow", params=[], expr_body=ident(i) if self.chance(0.7) else ("EUpdate", False, True, ident(i)), strict=cx.strict))
        loop = ("SFor", ("FIDecl", kind, [(pid(i), num(0))]), bin_("BLt", ident(i), num(3)), ("EUpdate", False, True, ident(i)),
                ("SBlock", [("SExpr", mcall(ident(fs), "push", ("EFunc", fi)))] + body_extra))
        fj = self.add_func(func(kind="FArrow", params=[(pid("f"), None)], expr_body=call(ident("f")), strict=cx.strict))
        return [let(fs, arr(), "KConst"), loop, pr(mcall(mcall(ident(fs), "map", ("EFunc", fj)), "join"))]


    # ---------------------------------------------------------------- parameter-scope closures over FREE names the body declares
    def s_i_param_free_name(self, sc, cx):
        """function f(p, g = () => x, t = () => typeof x, w = v => { x = v }) { var x = "inner" ... } with an outer x = "outer":
        the default closures must keep resolving x to the OUTER binding (separate varEnv, FunctionDeclarationInstantiation 28),
        whether or not the body also redeclares a parameter, for var / function / let body declarations, in every function position"""
        st = cx.strict
        x = self.fresh("x")
        fname = self.fresh("pf")
        X = ident(x)
        outer_kind = self.pick(["KLet", "KVar", "KLet"]) if (sc.kind != "block" and self.var_ok(sc, x)) else "KLet"
        sc.add(Var(x, "let" if outer_kind == "KLet" else "var", "str"))
        body_decl = self.weighted([("var_init", 4), ("var_late", 2), ("function", 2), ("let", 1.5), ("var_in_block", 1)])
        redecl = self.chance(0.4)                                   # the body also var-redeclares parameter p (the other code path)
        use_r, use_t, use_w = True, self.chance(0.6), self.chance(0.6) and body_decl != "function"
        params = [(pid("p"), None), (pid("g"), self.arrow([], X, strict=st))]
        if use_t:
            params.append((pid("t"), self.arrow([], ("EUnary", "UTypeof", X), strict=st)))
        if use_w:
            params.append((pid("w"), self.arrow(["v"], ("EAssign", pid(x), ident("v")), strict=st)))
        if self.chance(0.25):
            params.insert(1, (pid("q"), ("ESeq", call(ident("print"), estr(fname + ".q"), X), X)))   # a default that reads x directly
        tag = estr(fname)
        probes = lambda: [call(ident("g"))] + ([call(ident("t"))] if use_t else [])
        body = [pr(tag, estr("a"), *probes())]
        shown = ("EUnary", "UTypeof", X) if body_decl == "function" else X
        if body_decl == "var_init":
            body += [("SDecl", "KVar", [(pid(x), estr("inner"))])]
        elif body_decl == "var_late":
            body += [pr(tag, estr("pre"), X), ("SDecl", "KVar", [(pid(x), None)]), ("SExpr", ("EAssign", pid(x), estr("inner")))]
        elif body_decl == "function":
            fi = self.add_func(func(name=x, kind="FNormal", body=[("SReturn", estr("fn"))], strict=st))
            body += [("SFunDecl", u(x), fi)]
        elif body_decl == "let":
            body += [let(x, estr("inner"))]
        else:
            body += [("SBlock", [("SDecl", "KVar", [(pid(x), estr("inner"))])])]
        body += [pr(tag, estr("b"), shown, *probes())]
        if use_w:
            body += [("SExpr", call(ident("w"), estr("written"))), pr(tag, estr("c"), shown, *probes())]
        if redecl:
            body.insert(self.rng.randrange(len(body) + 1), ("SDecl", "KVar", [(pid("p"), self.lit("int")) if self.chance(0.6) else (pid("p"), None)]))
            body.append(pr(tag, estr("p"), ident("p")))
        pos = self.weighted([("plain", 3), ("generator", 1.5), ("async", 1.5), ("method", 1.5), ("class_method", 1.5), ("arrow", 1.5), ("expr", 1)])
        after = [pr(tag, estr("outer"), X)]
        if pos == "generator":
            body.insert(self.rng.randrange(1, len(body) + 1), ("SYield", None, None, estr("y"), False))
            body.append(("SReturn", call(ident("g"))))
            fi = self.add_func(func(name=fname, kind="FGenerator", params=params, body=body, strict=st))
            it = self.fresh("it")
            decl = [("SFunDecl", u(fname), fi)] if sc.kind != "block" else [let(fname, ("EFunc", fi), "KConst")]
            return [let(x, estr("outer"), outer_kind)] + decl + [let(it, call(ident(fname), num(1)), "KConst"),
                    pr(member(mcall(ident(it), "next"), "value")), pr(member(mcall(ident(it), "next"), "value")), pr(member(mcall(ident(it), "next"), "done"))] + after
        body.append(("SReturn", call(ident("g"))))
        if pos == "async":
            body.insert(self.rng.randrange(1, len(body)), ("SAwait", None, None, num(0)))
            fi = self.add_func(func(name=fname, kind="FAsync", params=params, body=body, strict=st))
            decl = [("SFunDecl", u(fname), fi)] if sc.kind != "block" else [let(fname, ("EFunc", fi), "KConst")]
            return [let(x, estr("outer"), outer_kind)] + decl + [("SExpr", self.then_print(call(ident(fname), num(1)), fname + ".then"))] + after
        if pos == "method":
            fi = self.add_func(func(name="m", kind="FMethod", params=params, body=body, strict=st))
            o = self.fresh("po")
            return [let(x, estr("outer"), outer_kind), let(o, ("EObject", [("PMethod", ("PKStr", u("m")), fi)]), "KConst"),
                    guarded([pr(mcall(ident(o), "m", num(1)))], "PF")] + after
        if pos == "class_method":
            fi = self.add_func(func(name="m", kind="FMethod", params=params, body=body, strict=True))
            for (_, d) in params:
                if d is not None and d[0] == "EFunc":
                    self.funcs[d[1]]["f_strict"] = True
            cname = self.fresh("PC")
            ctor = func(name=cname, kind="FCtorBase", body=[], strict=True)
            ctor["synthetic"] = True
            ci = len(self.classes)
            self.classes.append({"c_name": u(cname), "c_heritage": None, "c_ctor": self.add_func(ctor),
                                 "c_members": [{"cm_static": self.chance(0.3), "cm_kind": "MMethod", "cm_key": ("PKStr", u("m")), "cm_fidx": fi}]})
            static = self.classes[ci]["c_members"][0]["cm_static"]
            recv = ident(cname) if static else ("ENew", ident(cname), [])
            return [let(x, estr("outer"), outer_kind), ("SClassDecl", u(cname), ci), guarded([pr(mcall(recv, "m", num(1)))], "PF")] + after
        if pos == "arrow":
            fi = self.add_func(func(kind="FArrow", params=params, body=body, strict=st))
            return [let(x, estr("outer"), outer_kind), let(fname, ("EFunc", fi), "KConst"), guarded([pr(call(ident(fname), num(1)))], "PF")] + after
        fi = self.add_func(func(name=fname if pos == "plain" else "", kind="FNormal", params=params, body=body, strict=st))
        if pos == "plain" and sc.kind != "block":
            decl = [("SFunDecl", u(fname), fi)]
        else:
            decl = [let(fname, ("EFunc", fi), "KConst")]
        return [let(x, estr("outer"), outer_kind)] + decl + [guarded([pr(call(ident(fname), num(1)))], "PF")] + after

    # ---------------------------------------------------------------- closures created in loop heads (CreatePerIterationEnvironment)
    def s_i_loop_head_closure(self, sc, cx):
        """closures created in a for-let initializer / test / update, in for-in/of heads (destructuring defaults), in switch cases and
        catch clauses; the captured binding is written from the closure and from the loop, and read from both sides, across iterations"""
        i = self.fresh("i")
        fs = self.fresh("fs")
        n = self.rng.randrange(2, 4)
        st = cx.strict
        k = self.weighted([("init_reader", 3), ("init_writer", 3), ("init_both", 3), ("test", 2), ("update", 2), ("forof_default", 2.5),
                           ("forin", 1.5), ("switch_case", 1.5), ("catch_param", 1.5), ("init_const", 1)])
        I = ident(i)
        test = bin_("BLt", I, num(n))
        upd = ("EUpdate", self.chance(0.5), True, I)
        joined = pr(mcall(mcall(ident(fs), "map", self.arrow(["f"], call(ident("f")), strict=st)), "join"))

        def body_write():
            return self.pick([[], [("SExpr", ("EOpAssign", "BAdd", I, num(0)))], [("SIf", bin_("BSEq", I, num(1)), ("SExpr", ("EUpdate", False, True, I)), None)]])
        if k in ("init_reader", "init_writer", "init_both", "init_const"):
            g, w = self.fresh("get"), self.fresh("set")
            decls = [(pid(i), num(0))]
            if k in ("init_reader", "init_both", "init_const"):
                decls.append((pid(g), self.arrow([], I, strict=st)))
            if k in ("init_writer", "init_both"):
                decls.append((pid(w), self.arrow(["v"], ("EAssign", pid(i), ident("v")) if self.chance(0.6) else ("EOpAssign", "BAdd", I, ident("v")), strict=st)))
            if self.chance(0.3):
                self.rng.shuffle(decls)
                decls.sort(key=lambda d: d[0][1] != u(i))      # the loop variable first (a closure before it would hit the TDZ at creation? no: only at call)
            body = []
            if k in ("init_writer", "init_both"):
                body.append(("SExpr", call(ident(w), bin_("BAdd", I, num(10)))))
            body.append(pr(estr(i), I, *( [call(ident(g))] if k != "init_writer" else [])))
            body += body_write()
            if self.chance(0.5):
                body.append(("SExpr", mcall(ident(fs), "push", self.arrow([], I, strict=st))))
            if k == "init_const":
                # const head: one environment for the whole loop
                o = self.fresh("ob")
                loop = ("SFor", ("FIDecl", "KConst", [(pid(o), obj(("n", num(0)))), (pid(g), self.arrow([], member(ident(o), "n"), strict=st))]),
                        bin_("BLt", member(ident(o), "n"), num(n)), ("EUpdate", False, True, member(ident(o), "n")),
                        ("SBlock", [pr(member(ident(o), "n"), call(ident(g))), ("SExpr", mcall(ident(fs), "push", self.arrow([], member(ident(o), "n"), strict=st)))]))
            else:
                loop = ("SFor", ("FIDecl", "KLet", decls), test, upd, ("SBlock", body))
            return [let(fs, arr(), "KConst"), loop, joined]
        if k == "test":
            loop = ("SFor", ("FIDecl", "KLet", [(pid(i), num(0))]), ("ESeq", mcall(ident(fs), "push", self.arrow([], I, strict=st)), test), upd,
                    ("SBlock", [pr(estr(i), I)] + body_write()))
            return [let(fs, arr(), "KConst"), loop, joined]
        if k == "update":
            loop = ("SFor", ("FIDecl", "KLet", [(pid(i), num(0))]), test, ("ESeq", mcall(ident(fs), "push", self.arrow([], I, strict=st)), upd),
                    ("SBlock", [pr(estr(i), I)] + body_write()))
            return [let(fs, arr(), "KConst"), loop, joined]
        if k == "forof_default":
            a, f = self.fresh("a"), self.fresh("f")
            pat = ("PArr", [(pid(a), None), (pid(f), self.arrow([], ident(a), strict=st))], None) if self.chance(0.6) else \
                  ("PObj", [(("PKStr", u("a")), pid(a), None), (("PKStr", u("f")), pid(f), self.arrow([], ident(a), strict=st))], None)
            src = arr(arr(num(1)), arr(num(2))) if pat[0] == "PArr" else arr(obj(("a", num(1))), obj(("a", num(2))))
            body = [("SExpr", ("EOpAssign", "BAdd", ident(a), num(10))), pr(ident(a), call(ident(f))), ("SExpr", mcall(ident(fs), "push", ident(f)))]
            return [let(fs, arr(), "KConst"), ("SForOf", ("FHDecl", "KLet", pat), src, ("SBlock", body)), joined]
        if k == "forin":
            kk = self.fresh("k")
            body = [("SExpr", mcall(ident(fs), "push", self.arrow([], ident(kk), strict=st)))]
            if self.chance(0.5):
                body.append(("SExpr", ("EOpAssign", "BAdd", ident(kk), estr("!"))))
            return [let(fs, arr(), "KConst"), ("SForIn", ("FHDecl", "KLet", pid(kk)), obj(("x", num(1)), ("y", num(2))), ("SBlock", body)), joined]
        if k == "switch_case":
            sv = self.fresh("s")
            cases = [(num(1), [let(sv, num(5)), ("SExpr", mcall(ident(fs), "push", self.arrow([], ident(sv), strict=st))), ("SExpr", ("EUpdate", False, True, ident(sv)))]),
                     (num(2), [("SExpr", mcall(ident(fs), "push", self.arrow([], ("EAssign", pid(sv), num(9)), strict=st))), pr(estr("c2"), ident(sv))])]
            return [let(fs, arr(), "KConst"), ("SSwitch", num(1), cases), joined]
        ev = "e"
        hb = [("SExpr", mcall(ident(fs), "push", self.arrow([], ident(ev), strict=st))), ("SExpr", ("EAssign", pid(ev), num(2))),
              ("SExpr", mcall(ident(fs), "push", self.arrow([], ("EOpAssign", "BAdd", ident(ev), num(1)), strict=st))), pr(estr("ce"), ident(ev))]
        return [let(fs, arr(), "KConst"), ("STry", [("SThrow", num(1))], (pid(ev), hb), None), joined, joined]

    # ---------------------------------------------------------------- promises and async functions
    def arrow(self, params, expr_body=None, body=None, strict=False, kind="FArrow"):
        return ("EFunc", self.add_func(func(kind=kind, params=[(pid(x), None) for x in params], expr_body=expr_body,
                                            body=body if body is not None else [], strict=strict)))

    def awaitable(self, sc, cx, tag):
        """an expression to await / resolve with: plain value, resolved / rejected promise, thenable, promise chain"""
        k = self.weighted([("value", 3), ("resolved", 3), ("rejected", 1.5), ("thenable", 1.5), ("chain", 1.5), ("newpromise", 1.5)])
        v = self.lit(self.pick(["int", "str"]))
        P = ident("Promise")
        if k == "value":
            return v
        if k == "resolved":
            return mcall(P, "resolve", v)
        if k == "rejected":
            return mcall(P, "reject", estr("rej" + tag) if self.chance(0.6) else ("ENew", ident("TypeError"), [("Arg", estr("m"))]))
        if k == "thenable":
            self.feat("thenable")
            body = [pr(estr(tag + ".then")), ("SExpr", call(ident("res"), v)) if self.chance(0.75) else ("SExpr", call(ident("rej"), estr("trej")))]
            if self.chance(0.25):
                body.append(("SExpr", call(ident("res"), estr("again"))))
            fi = self.add_func(func(name="then", kind="FMethod", params=[(pid("res"), None), (pid("rej"), None)], body=body, strict=cx.strict))
            return ("EObject", [("PMethod", ("PKStr", u("then")), fi)])
        if k == "chain":
            return mcall(mcall(P, "resolve", v), "then", self.arrow(["t"], ("ESeq", call(ident("print"), estr(tag + ".c"), ident("t")), bin_("BAdd", ident("t"), self.lit("int"))), strict=cx.strict))
        ex = self.arrow(["res", "rej"], body=[pr(estr(tag + ".ex")), ("SExpr", call(ident(self.pick(["res", "res", "rej"])), v))] +
                        ([("SThrow", estr("late"))] if self.chance(0.2) else []), strict=cx.strict)
        return ("ENew", P, [("Arg", ex)])

    def s_await(self, sc, cx):
        """a suspension statement inside an async function: await e; / x = await e; / let x = await e; (DESIGN 2.2: statement position)"""
        self.feat("await")
        tag = self.fresh("w")
        e = self.awaitable(sc, cx, tag)
        k = self.weighted([("bare", 2), ("decl", 3), ("assign", 1.5)])
        if k == "bare":
            st = [("SAwait", None, None, e)]
        elif k == "decl":
            n = self.new_name(sc, avoid_visible=True)
            sc.add(Var(n, "let", "any"))
            st = [("SAwait", pid(n), self.pick(["KLet", "KConst"]), e), pr(estr(tag), ident(n))]
        else:
            v = self.var_of_type(sc, "any", assignable=True)
            if v is None:
                return [("SAwait", None, None, e), pr(estr(tag))]
            st = [("SAwait", pid(v.name), None, e), pr(estr(tag), ident(v.name))]
        if self.chance(0.6):
            return [("STry", st, catch_print(tag + "c"), [pr(estr(tag + "f"))] if self.chance(0.3) else None)]
        return st

    def then_print(self, e, tag):
        """e.then(v => print(tag, v), r => print(tag+'!', r && r.name || r))"""
        r = ident("r")
        return mcall(e, "then", self.arrow(["v"], call(ident("print"), estr(tag), ident("v"))),
                     self.arrow(["r"], call(ident("print"), estr(tag + "!"), ("ELogical", "LOr", ("ELogical", "LAnd", r, member(r, "name")), r))))

    def s_i_async_order(self, sc, cx):
        """interleaving of async function bodies, then-callbacks and synchronous code"""
        if sc.kind == "block":
            return None
        name = self.fresh("af")

        def body(fsc, fcx):
            out = [pr(estr(name + ".0"), ident("t"))]
            for i in range(self.rng.randrange(1, 4)):
                out += self.s_await(fsc, fcx)
                if self.chance(0.5):
                    out.append(pr(estr("%s.%d" % (name, i + 1))))
            if self.chance(0.3):
                out.append(("SReturnAwait", self.awaitable(fsc, fcx, name + "r")))
            elif self.chance(0.7):
                out.append(("SReturn", self.awaitable(fsc, fcx, name + "r") if self.chance(0.4) else bin_("BAdd", ident("t"), self.lit("int"))))
            return out
        fsc = Scope(sc, "function")
        fsc.add(Var("t", "param", "any"))
        fcx = Ctx(cx.level, True, strict=cx.strict, in_async=True, depth=cx.depth + 1)
        saved = self.cur_strict
        self.cur_strict = cx.strict
        b = body(fsc, fcx)
        self.cur_strict = saved
        fi = self.add_func(func(name=name, kind="FAsync", params=[(pid("t"), None)], body=b, strict=cx.strict))
        sc.add(Var(name, "func", "asyncfn", level=fi))
        out = [("SFunDecl", u(name), fi)]
        for i in range(self.rng.randrange(1, 3)):
            out.append(("SExpr", self.then_print(call(ident(name), self.lit("int")), "%s>%d" % (name, i))))
        out.append(pr(estr(name + ".sync")))
        return out

    def s_i_promise_chain(self, sc, cx):
        tag = self.fresh("pc")
        e = self.awaitable(sc, cx, tag)
        if e[0] not in ("ECall", "ENew"):
            e = mcall(ident("Promise"), "resolve", e)
        for i in range(self.rng.randrange(1, 4)):
            k = self.weighted([("then", 4), ("catch", 2), ("finally", 2), ("then_throw", 1.5), ("then_promise", 1.5)])
            t = "%s.%d" % (tag, i)
            if k == "then":
                e = mcall(e, "then", self.arrow(["v"], ("ESeq", call(ident("print"), estr(t), ident("v")), bin_("BAdd", ident("v"), self.lit("int")))))
            elif k == "catch":
                e = mcall(e, "catch", self.arrow(["r"], ("ESeq", call(ident("print"), estr(t + "c"), ident("r")), self.lit("int"))))
            elif k == "finally":
                e = mcall(e, "finally", self.arrow([], ("ESeq", call(ident("print"), estr(t + "f")), self.awaitable(sc, cx, t) if self.chance(0.4) else self.lit("int"))))
            elif k == "then_throw":
                e = mcall(e, "then", self.arrow(["v"], body=[pr(estr(t + "t"), ident("v")), ("SThrow", estr("thrown" + t))]))
            else:
                e = mcall(e, "then", self.arrow(["v"], ("ESeq", call(ident("print"), estr(t + "p")), self.awaitable(sc, cx, t))))
        return [("SExpr", self.then_print(e, tag + ".end")), pr(estr(tag + ".sync"))]

    def s_i_thenable(self, sc, cx):
        tag = self.fresh("th")
        a = self.then_print(mcall(ident("Promise"), "resolve", self.awaitable(sc, cx, tag + "a")), tag + "a")
        b = self.then_print(mcall(ident("Promise"), "resolve", self.lit("int")), tag + "b")
        out = [("SExpr", a), ("SExpr", b)]
        if self.chance(0.5):
            out.append(("SExpr", self.then_print(("ENew", ident("Promise"), [("Arg", self.arrow(["res"], call(ident("res"), self.awaitable(sc, cx, tag + "n"))))]), tag + "n")))
        self.rng.shuffle(out)
        return out + [pr(estr(tag + ".sync"))]

    def s_i_promise_comb(self, sc, cx):
        tag = self.fresh("pa")
        n = self.rng.randrange(0, 4)
        els = [self.awaitable(sc, cx, "%s%d" % (tag, i)) for i in range(n)]
        which = self.pick(["all", "all", "race"])
        e = mcall(ident("Promise"), which, arr(*els))
        if which == "all":
            e = mcall(e, "then", self.arrow(["vs"], mcall(ident("vs"), "join", estr("|"))))
        return [("SExpr", self.then_print(e, tag)), pr(estr(tag + ".sync"))]

    def s_i_async_flow(self, sc, cx):
        """await inside loops / try-finally / labelled continue, async arrows and methods"""
        tag = self.fresh("ag")
        i = self.fresh("i")
        loop_body = [pr(estr(tag + ".i"), ident(i))]
        fsc = Scope(sc, "function")
        fcx = Ctx(cx.level, True, strict=cx.strict, in_async=True, depth=cx.depth + 2, in_loop=1)
        lsc = Scope(fsc, "block")
        lsc.add(Var(i, "let", "int", protected=True))
        saved = self.cur_strict
        self.cur_strict = cx.strict
        loop_body += self.s_await(lsc, fcx)
        if self.chance(0.5):
            loop_body.append(("SIf", bin_("BSEq", ident(i), num(self.rng.randrange(0, 3))), self.pick([("SContinue", None), ("SBreak", None), ("SReturn", estr("early"))]), None))
        loop_body.append(pr(estr(tag + ".e"), ident(i)))
        self.cur_strict = saved
        body = [("STry", [("SFor", ("FIDecl", "KLet", [(pid(i), num(0))]), bin_("BLt", ident(i), num(self.rng.randrange(1, 4))), ("EUpdate", False, True, ident(i)), ("SBlock", loop_body))],
                 None, [pr(estr(tag + ".fin"))]), ("SReturn", estr("done"))]
        style = self.pick(["arrow", "method", "expr"])
        if style == "arrow":
            f = ("EFunc", self.add_func(func(kind="FAsyncArrow", body=body, strict=cx.strict)))
            callee = f
            return [("SExpr", self.then_print(call(callee), tag)), pr(estr(tag + ".sync"))]
        if style == "method":
            fi = self.add_func(func(name="run", kind="FAsync", body=body, strict=cx.strict))
            o = self.fresh("ao")
            return [let(o, ("EObject", [("PMethod", ("PKStr", u("run")), fi)]), "KConst"), ("SExpr", self.then_print(mcall(ident(o), "run"), tag)), pr(estr(tag + ".sync"))]
        f = ("EFunc", self.add_func(func(kind="FAsync", body=body, strict=cx.strict)))
        fn = self.fresh("afe")
        return [let(fn, f, "KConst"), ("SExpr", self.then_print(call(ident(fn)), tag)), pr(estr(tag + ".sync"))]


# ------------------------------------------------------------------------------------------------ early errors

def _early_error_stmts(g, sc, cx):
    """a statement list containing exactly one early error (ECMA-262 static semantics)"""
    n = g.pick(["a", "q", "z"])
    k = g.weighted([("dup_let", 3), ("let_var", 3), ("var_let", 2), ("dup_const_let", 1), ("dup_param_let", 1.5), ("break_nolabel", 1),
                    ("continue_noloop", 1), ("dup_label", 0.7), ("let_fn", 1), ("dup_class", 0.7), ("catch_param_let", 1)])
    g.feat("early:" + k)
    one = num(1)
    if k == "dup_let":
        return [let(n, one), let(n, num(2))]
    if k == "let_var":
        return [let(n, one), ("SDecl", "KVar", [(pid(n), num(2))])]
    if k == "var_let":
        return [("SDecl", "KVar", [(pid(n), one)]), let(n, num(2))]
    if k == "dup_const_let":
        return [let(n, one, "KConst"), let(n, num(2))]
    if k == "let_fn":
        fi = g.add_func(func(name=n, kind="FNormal", body=[], strict=cx.strict))
        return [let(n, one), ("SFunDecl", u(n), fi)]
    if k == "dup_class":
        c = func(name=n, kind="FCtorBase", body=[], strict=True)
        c["synthetic"] = True
        ci = len(g.classes)
        g.classes.append({"c_name": u(n), "c_heritage": None, "c_ctor": g.add_func(c), "c_members": []})
        return [("SClassDecl", u(n), ci), let(n, one)]
    if k == "break_nolabel":
        return [("SBlock", [("SBreak", u("nolabel"))])]
    if k == "continue_noloop":
        return [("SLabel", u("lb"), ("SBlock", [("SContinue", u("lb"))]))]
    if k == "dup_label":
        return [("SLabel", u("lb"), ("SLabel", u("lb"), ("SBlock", [])))]
    if k == "catch_param_let":
        return [("STry", [], (pid(n), [let(n, one)]), None)]
    return [let(n, one), let(n, num(2))]


def _wrap_early(g, sc, cx, stmts, k_place=None):
    """place the erroneous statements at top level, in a block, in a function body, arrow, method, generator or class method"""
    place = k_place or g.weighted([("function", 4), ("top", 2), ("block", 1.5), ("arrow", 1.5), ("method", 1), ("generator", 1), ("nested_function", 1.5),
                                   ("class_method", 1), ("switch", 0.7)])
    g.feat("early_in:" + place)
    if place == "top":
        return stmts
    if place == "block":
        return [("SBlock", stmts)]
    if place == "switch":
        return [("SSwitch", num(1), [(num(0), stmts[:1]), (num(1), stmts[1:])])] if len(stmts) > 1 else [("SBlock", stmts)]
    if place in ("function", "generator"):
        fi = g.add_func(func(name="ef", kind="FNormal" if place == "function" else "FGenerator", body=stmts, strict=cx.strict))
        return [("SFunDecl", u("ef"), fi)]
    if place == "nested_function":
        fi = g.add_func(func(name="inner", kind="FNormal", body=stmts, strict=cx.strict))
        fo = g.add_func(func(name="ef", kind="FNormal", body=[("SFunDecl", u("inner"), fi)], strict=cx.strict))
        return [("SFunDecl", u("ef"), fo)]
    if place == "arrow":
        fi = g.add_func(func(kind="FArrow", body=stmts, strict=cx.strict))
        return [let("ef", ("EFunc", fi), "KConst")]
    if place == "method":
        fi = g.add_func(func(name="m", kind="FMethod", body=stmts, strict=cx.strict))
        return [let("eo", ("EObject", [("PMethod", ("PKStr", u("m")), fi)]), "KConst")]
    fi = g.add_func(func(name="m", kind="FMethod", body=stmts, strict=True))
    c = func(name="EC", kind="FCtorBase", body=[], strict=True)
    c["synthetic"] = True
    ci = len(g.classes)
    g.classes.append({"c_name": u("EC"), "c_heritage": None, "c_ctor": g.add_func(c),
                      "c_members": [{"cm_static": False, "cm_kind": "MMethod", "cm_key": ("PKStr", u("m")), "cm_fidx": fi}]})
    return [("SClassDecl", u("EC"), ci)]


# ------------------------------------------------------------------------------------------------ entry points

def gen_program(rng, preset="C01", size=40, form=None, max_depth=5):
    g = Gen(rng, preset, size)
    g.max_depth = max_depth
    w = g.w
    strict = g.chance(w["p_strict"])
    if form is None:
        form = "func" if g.chance(w["p_func_form"]) else "script"
    g.cur_strict = strict
    gsc = Scope(None, "global")
    early = g.chance(w["p_early_error"])
    if form == "script":
        cx = Ctx(10 ** 9, False, strict=strict)
        body = []
        while g.budget > 0 and len(body) < size:
            body += g.stmts(gsc, cx, 3)
        if g.chance(0.7):
            body.append(("SExpr", g.expr(gsc, cx, "any", 1)))
        if early:
            g.early_error = True
            ee = _wrap_early(g, gsc, cx, _early_error_stmts(g, gsc, cx))
            pos = g.rng.randrange(len(body) + 1)
            body[pos:pos] = ee
        main_call = None
    else:
        cx = Ctx(10 ** 9, True, strict=strict)
        fsc = Scope(gsc, "function")
        fb = []
        while g.budget > 0 and len(fb) < size:
            fb += g.stmts(fsc, cx, 3)
        fb.append(("SReturn", g.expr(fsc, cx, "any", 1)))
        if early:
            g.early_error = True
            ee = _early_error_stmts(g, fsc, cx)
            if g.chance(0.5):
                ee = _wrap_early(g, fsc, cx, ee)
            pos = g.rng.randrange(len(fb))
            fb[pos:pos] = ee
        mi = g.add_func(func(name="main", kind="FNormal", body=fb, strict=strict))
        body = [("SFunDecl", u("main"), mi), ("SExpr", call(ident("main")))]
        main_call = 1
    p = prog(body, funcs=g.funcs, classes=g.classes, strict=strict)
    p["meta"] = {"form": form, "hermetic": g.hermetic and form == "func", "features": sorted(g.features), "early_error": g.early_error,
                 "main_call": main_call, "preset": preset if isinstance(preset, str) else "custom", "size": size}
    return p


def call_form(p):
    """for form == 'func': the program without the final `main();` statement (host-call entry)"""
    q = dict(p)
    mc = p.get("meta", {}).get("main_call")
    if mc is not None:
        q["p_body"] = [st for i, st in enumerate(p["p_body"]) if i != mc]
    return q


def features(p):
    return list(p.get("meta", {}).get("features", []))
