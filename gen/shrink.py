"""Delta debugging on the generator AST (jsast tuples), driven by the wire-format type table of tools/gen_wire.py.

    shrink(prog, batch_pred, max_rounds=60, width=48) -> smaller prog
        batch_pred(list_of_progs) -> list of bools ("still fails in the same way"); evaluated in batches so that one
        round costs one invocation of each runner.  Variants are one-step reductions: drop a statement / element /
        optional part, splice a compound statement's children in its place, replace an expression by a sub-expression
        or by a literal.  Function and class tables keep their indices (bodies of unreferenced functions are emptied
        at the end), so a shrunk program is still a valid wire term.
    size(prog) -> number of AST nodes (the measure that must decrease)
"""
import gen_wire
from gen_wire import TYPES, RECORDS, ENUMS, CTOR_TYPE, split_tuple

ZERO = ("ENum", 0)


def size(p):
    return _size("prog", p)


def _size(spec, v):
    if spec in ("N", "nat", "bool", "Z", "str") or spec in ENUMS:
        return 0
    if spec.startswith("list:"):
        return sum(_size(spec[5:], x) for x in v)
    if spec.startswith("opt:"):
        return 0 if v is None else _size(spec[4:], v)
    if spec.startswith("tuple:"):
        return sum(_size(c, x) for c, x in zip(split_tuple(spec), v))
    if spec in TYPES:
        _, fields = CTOR_TYPE[v[0]]
        return 1 + sum(_size(f, x) for f, x in zip(fields, v[1:]))
    if spec in RECORDS:
        return 1 + sum(_size(ft, v[fn]) for fn, ft in RECORDS[spec])
    raise ValueError(spec)


def _children_of_type(v, want):
    """direct (and through opt/list/tuple) children of node v having type `want`"""
    out = []
    _, fields = CTOR_TYPE[v[0]]

    def walk(spec, x):
        if x is None:
            return
        if spec == want:
            out.append(x)
        elif spec.startswith("list:"):
            for y in x:
                walk(spec[5:], y)
        elif spec.startswith("opt:"):
            walk(spec[4:], x)
        elif spec.startswith("tuple:"):
            for c, y in zip(split_tuple(spec), x):
                walk(c, y)
        elif spec in ("arg", "arr_elem", "propdef", "propkey") and want == "expr":
            _, fs = CTOR_TYPE[x[0]]
            for f, y in zip(fs, x[1:]):
                walk(f, y)
    for f, x in zip(fields, v[1:]):
        walk(f, x)
    return out


def _stmt_children_lists(s):
    """statement lists / statements nested directly in a statement, as flat lists (for splicing)"""
    out = []
    t = s[0]
    if t == "SBlock":
        out.append(list(s[1]))
    elif t == "SIf":
        out.append([s[2]])
        if s[3] is not None:
            out.append([s[3]])
    elif t in ("SFor",):
        out.append([s[4]])
    elif t in ("SForIn", "SForOf"):
        out.append([s[3]])
    elif t in ("SWhile", "SWith"):
        out.append([s[2]])
    elif t == "SDoWhile":
        out.append([s[1]])
    elif t == "SLabel":
        out.append([s[2]])
    elif t == "STry":
        out.append(list(s[1]))
        if s[2] is not None:
            out.append(list(s[2][1]))
        if s[3] is not None:
            out.append(list(s[3]))
        out.append(list(s[1]) + (list(s[3]) if s[3] is not None else []))
    elif t == "SSwitch":
        for (_, b) in s[2]:
            out.append(list(b))
    elif t == "SDirectEval":
        out.append(list(s[2]))
    res = []
    for l in out:
        fl = []
        for x in l:
            if x[0] == "SBlock":
                fl += list(x[1])
            else:
                fl.append(x)
        res.append(fl)
    return res


def variants(spec, v):
    """one-step reductions of v (a value of wire type `spec`), biggest cuts first"""
    if spec in ("N", "nat", "bool", "Z", "str") or spec in ENUMS:
        return
    if spec.startswith("list:"):
        inner = spec[5:]
        n = len(v)
        # chunks
        if n >= 4:
            h = n // 2
            yield list(v[h:])
            yield list(v[:h])
        for i in range(n):
            yield list(v[:i]) + list(v[i + 1:])
        if inner == "stmt":
            for i in range(n):
                for ch in _stmt_children_lists(v[i]):
                    yield list(v[:i]) + ch + list(v[i + 1:])
        for i in range(n):
            for x in variants(inner, v[i]):
                yield list(v[:i]) + [x] + list(v[i + 1:])
        return
    if spec.startswith("opt:"):
        if v is not None:
            yield None
            for x in variants(spec[4:], v):
                yield x
        return
    if spec.startswith("tuple:"):
        comps = split_tuple(spec)
        for i, c in enumerate(comps):
            for x in variants(c, v[i]):
                yield tuple(v[:i]) + (x,) + tuple(v[i + 1:])
        return
    if spec in TYPES:
        t, fields = CTOR_TYPE[v[0]]
        if spec == "expr":
            for c in _children_of_type(v, "expr"):
                yield c
            if v[0] not in ("ENum", "EStr", "EBool", "ENull", "EId", "EThis"):
                yield ZERO
            if v[0] == "EStr" and len(v[1]) > 1:
                yield ("EStr", v[1][:1])
            if v[0] == "EAssign":
                yield v[2]
        if spec == "stmt":
            if v[0] != "SEmpty":
                for c in _children_of_type(v, "stmt"):
                    yield c
                for c in _children_of_type(v, "expr"):
                    yield ("SExpr", c)
        if spec == "pat" and v[0] in ("PObj", "PArr"):
            for c in _children_of_type(v, "pat"):
                yield c
        for i, f in enumerate(fields):
            for x in variants(f, v[i + 1]):
                yield tuple(v[:i + 1]) + (x,) + tuple(v[i + 2:])
        return
    if spec in RECORDS:
        fields_ = RECORDS[spec] if spec != "prog" else sorted(RECORDS[spec], key=lambda t: t[0] != "p_body")
        for fn, ft in fields_:
            if spec == "prog" and fn in ("p_strict",):
                continue
            for x in variants(ft, v[fn]):
                if spec == "prog" and fn in ("p_funcs", "p_classes") and len(x) != len(v[fn]):
                    continue      # tables keep their length (indices are references)
                q = dict(v)
                q[fn] = x
                yield q
        if spec == "func":
            if v["f_strict"] is False and v["f_uses_args"]:
                pass
        return
    raise ValueError(spec)


def _refs(p):
    """indices of referenced functions and classes (reachability from p_body through the tables)"""
    fs, cs = set(), set()
    todo = []

    def walk(spec, v):
        if v is None or spec in ("N", "nat", "bool", "Z", "str") or spec in ENUMS:
            return
        if spec.startswith("list:"):
            for x in v:
                walk(spec[5:], x)
        elif spec.startswith("opt:"):
            walk(spec[4:], v)
        elif spec.startswith("tuple:"):
            for c, x in zip(split_tuple(spec), v):
                walk(c, x)
        elif spec in TYPES:
            t = v[0]
            if t in ("EFunc",):
                todo.append(("f", v[1]))
            elif t in ("EClass",):
                todo.append(("c", v[1]))
            elif t in ("SFunDecl", "PMethod", "PGet", "PSet"):
                todo.append(("f", v[2]))
            elif t == "SClassDecl":
                todo.append(("c", v[2]))
            _, fields = CTOR_TYPE[t]
            for f, x in zip(fields, v[1:]):
                if f != "nat":
                    walk(f, x)
        elif spec in RECORDS:
            for fn, ft in RECORDS[spec]:
                walk(ft, v[fn])
    walk("list:stmt", p["p_body"])
    while todo:
        k, i = todo.pop()
        if k == "f":
            if i in fs or i >= len(p["p_funcs"]):
                continue
            fs.add(i)
            walk("func", p["p_funcs"][i])
        else:
            if i in cs or i >= len(p["p_classes"]):
                continue
            cs.add(i)
            c = p["p_classes"][i]
            walk("opt:expr", c["c_heritage"])
            if c["c_ctor"] is not None:
                todo.append(("f", c["c_ctor"]))
            for m in c["c_members"]:
                walk("propkey", m["cm_key"])
                if m["cm_fidx"] is not None:
                    todo.append(("f", m["cm_fidx"]))
    return fs, cs


def prune_tables(p):
    """empty the bodies of unreferenced functions / classes (indices stay valid)"""
    fs, cs = _refs(p)
    q = dict(p)
    q["p_funcs"] = [f if i in fs else dict(f, f_params=[], f_rest=None, f_body=[], f_expr_body=None, f_name=[]) for i, f in enumerate(p["p_funcs"])]
    q["p_classes"] = [c if i in cs else dict(c, c_heritage=None, c_members=[]) for i, c in enumerate(p["p_classes"])]
    return q


def _ddmin_list(cur, get, put, batch_pred, log=None):
    """classic ddmin (complements, then subsets) on one statement list of the program, evaluated in batches"""
    items = get(cur)
    n = 2
    while len(items) >= 1:
        n = min(n, len(items))
        size_ = (len(items) + n - 1) // n
        chunks = [items[i:i + size_] for i in range(0, len(items), size_)]
        cands = []
        for i in range(len(chunks)):
            comp = [x for j, c in enumerate(chunks) if j != i for x in c]
            cands.append(comp)
        if len(chunks) > 2:
            cands += chunks
        progs = [put(cur, c) for c in cands]
        res = batch_pred(progs)
        ok = [(len(c), k) for k, (c, r) in enumerate(zip(cands, res)) if r]
        if ok:
            ok.sort()
            cur = progs[ok[0][1]]
            items = get(cur)
            n = max(n - 1, 2)
            if log:
                log("ddmin: %d statements" % len(items))
            continue
        if n >= len(items):
            break
        n = min(len(items), 2 * n)
    return cur


def _stmt_list_paths(p):
    """paths (tuples of keys / indices from the program dict) to every statement list with >= 2 elements, outermost first"""
    out = []

    def walk(spec, v, path):
        if v is None or spec in ("N", "nat", "bool", "Z", "str") or spec in ENUMS:
            return
        if spec.startswith("list:"):
            if spec == "list:stmt" and len(v) >= 2:
                out.append(path)
            for i, x in enumerate(v):
                walk(spec[5:], x, path + (i,))
        elif spec.startswith("opt:"):
            walk(spec[4:], v, path)
        elif spec.startswith("tuple:"):
            for i, (c, x) in enumerate(zip(split_tuple(spec), v)):
                walk(c, x, path + (i,))
        elif spec in TYPES:
            _, fields = CTOR_TYPE[v[0]]
            for i, (f, x) in enumerate(zip(fields, v[1:])):
                walk(f, x, path + (i + 1,))
        elif spec in RECORDS:
            for fn, ft in RECORDS[spec]:
                walk(ft, v[fn], path + (fn,))
    walk("list:stmt", p["p_body"], ("p_body",))
    fs, _ = _refs(p)
    for i in sorted(fs):
        walk("func", p["p_funcs"][i], ("p_funcs", i))
    out.sort(key=len)
    return out


def _get(v, path):
    for k in path:
        v = v[k]
    return v


def _put(v, path, new):
    if not path:
        return new
    k = path[0]
    if isinstance(v, dict):
        q = dict(v)
        q[k] = _put(v[k], path[1:], new)
        return q
    l = list(v)
    l[k] = _put(v[k], path[1:], new)
    return tuple(l) if isinstance(v, tuple) else l


def shrink(p, batch_pred, max_rounds=80, width=48, log=None, max_lists=14, time_limit=None):
    import time as _t
    t_end = _t.time() + time_limit if time_limit else None
    cur = prune_tables(p)
    if not batch_pred([cur])[0]:
        cur = p
    # phase A: ddmin over statement lists, outermost first (script body, function bodies, then nested blocks)
    done = set()
    for _ in range(max_lists):
        if t_end and _t.time() > t_end:
            break
        paths = [pa for pa in _stmt_list_paths(cur) if pa not in done]
        if not paths:
            break
        pa = paths[0]
        done.add(pa)
        try:
            cur = _ddmin_list(cur, lambda q, pa=pa: list(_get(q, pa)), lambda q, l, pa=pa: _put(q, pa, list(l)), batch_pred, log)
        except (IndexError, KeyError, TypeError):
            continue
        cur = prune_tables(cur)
    # phase B: one-step reductions anywhere in the tree
    cur_size = size(cur)
    for rnd in range(max_rounds):
        if t_end and _t.time() > t_end:
            break
        gen = variants("prog", cur)
        improved = False
        while True:
            batch = []
            for q in gen:
                q = dict(q)
                if "meta" in cur:
                    q["meta"] = cur["meta"]
                try:
                    sq = size(q)
                except Exception:
                    continue
                if sq < cur_size:
                    batch.append((sq, q))
                if len(batch) >= width:
                    break
            if not batch:
                break
            res = batch_pred([q for _, q in batch])
            ok = [(sq, q) for (sq, q), r in zip(batch, res) if r]
            if ok:
                ok.sort(key=lambda t: t[0])
                cur_size, cur = ok[0]
                cur = prune_tables(cur)
                cur_size = size(cur)
                improved = True
                if log:
                    log("shrink round %d: size %d" % (rnd, cur_size))
                break
        if not improved:
            break
    return cur
