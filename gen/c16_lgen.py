"""C16: generator of native-job behaviour tables for the run_jobs_async loop correspondence (harness mode `jloop`,
model coq/C16/LoopCase.v `loop_case`).

A case: {'init': [(kind, delay, id)], 'jobs': [(adv, err, [(kind, delay, id)])], 'n', 'bump', 'm', 'features'}
kind 0 = promise job, 1 = generic job, 2 = timeout job, 3 = interval job (delay = period).  Job i logs itself, moves the
clock forward by adv ms, enqueues its list in order and returns Err iff err.  case['stop']: ids of jobs that request a stop;
case['cancel']: {job id: [tickets]} clock jobs whose cancellation token the job revokes (model: DeepLoopCase_C16.full_case).

Structured stream: the enqueue graph is a DAG (children have larger ids) and every id is enqueued at most twice,
so every run terminates; delays and clock advances are small so that `key == now` / `key < now` boundaries are hit
often.  Edge stream (15 %): ids outside the table, an empty initial queue, a job that re-enqueues itself once (runs
until the poll limit), tiny poll limits.
"""


def _pick(r, weighted):
    tot = sum(w for w, _ in weighted)
    x = r.random() * tot
    for w, v in weighted:
        x -= w
        if x <= 0:
            return v
    return weighted[-1][1]


def generate(r):
    feat = set()
    edge = r.random() < 0.15
    n = r.choice([2, 3, 4, 5, 6, 8, 10, 12])
    uses = [0] * n
    # interval jobs re-arm for ever (such runs end by cancel / stop / Err / poll limit) and re-enqueue their children at
    # every tick: to keep the number of executed jobs small they are enqueued only by the host or by a job that itself
    # runs once (enqueued once, by the host, not as an interval), and runs with intervals get small poll limits
    intervals = r.choice([0, 0, 0.7, 1.5])
    top = [True]

    def enq(lo):
        cands = [c for c in range(lo, n) if uses[c] < 2]
        if not cands:
            return None
        c = r.choice(cands[:4]) if r.random() < 0.7 else r.choice(cands)
        uses[c] += 1
        k = _pick(r, [(4, 0), (2, 1), (3, 2), (intervals if top[0] else 0, 3)])
        d = r.choice([0, 0, 1, 1, 2, 3, 5, 10, 20]) if k == 2 else (r.choice([0, 1, 1, 2, 3, 5]) if k == 3 else 0)
        feat.add(('promise', 'generic', 'timeout', 'interval')[k])
        return (k, d, c)

    init = [e for e in (enq(0) for _ in range(r.choice([1, 2, 2, 3, 4]))) if e]
    top[0] = False
    errp = r.choice([0, 0, 0.05, 0.15])
    jobs = []
    for i in range(n):
        adv = r.choice([0, 0, 0, 1, 1, 2, 3, 5, 10])
        err = r.random() < errp
        if err:
            feat.add('err')
        new = [e for e in (enq(i + 1) for _ in range(r.choice([0, 0, 1, 1, 2, 3]))) if e]
        jobs.append((adv, err, new))
    if intervals:
        for k0, _, c0 in list(init):
            if k0 != 3 and uses[c0] == 1 and r.random() < 0.5:
                cands = [c for c in range(c0 + 1, n) if uses[c] < 2]
                if cands:
                    c2 = r.choice(cands)
                    uses[c2] += 1
                    jobs[c0] = (jobs[c0][0], jobs[c0][1], jobs[c0][2] + [(3, r.choice([0, 1, 1, 2, 3, 5]), c2)])
                    feat.add('interval')
                    feat.add('interval-from-job')
    if edge:
        feat.add('edge')
        k = r.choice(['outside', 'empty-init', 'self', 'self', 'tiny'])
        feat.add('edge-' + k)
        if k == 'outside':
            i = r.randrange(n)
            jobs[i] = (jobs[i][0], jobs[i][1], jobs[i][2] + [(r.choice([0, 1, 2]), r.choice([0, 3]), n + r.randrange(3))])
        elif k == 'empty-init':
            init = []
        elif k == 'self':
            i = r.randrange(n)
            jobs[i] = (jobs[i][0], False, jobs[i][2] + [(r.choice([0, 1, 2]), r.choice([0, 1, 4]), i)])
            if not any(c == i for _, _, c in init):
                init.append((r.choice([0, 1, 2]), 0, i))
    stop, cancel = set(), {}
    if r.random() < 0.35:
        for i in range(n):
            if r.random() < 0.08:
                stop.add(i)
                feat.add('stop')
            if r.random() < 0.3:
                cancel[i] = [r.randrange(0, 2 * n + 3) for _ in range(r.choice([1, 1, 2, 3]))]
                feat.add('cancel')
    np_ = r.choice([1, 2, 3, 5, 8, 50, 50, 50]) if not edge else r.choice([1, 1, 2, 3, 50])
    bump = r.choice([0, 1, 5, 1000, 1000])
    m = r.choice([1, 3, 50, 50])
    if 'interval' in feat:
        np_, m = min(np_, r.choice([3, 5, 8])), min(m, r.choice([3, 8]))
    case = {'init': init, 'jobs': jobs, 'stop': sorted(stop), 'cancel': cancel, 'n': np_, 'bump': bump, 'm': m, 'features': sorted(feat)}
    case['text'] = to_text(case)
    return case


def _e(e):
    return '%d:%d:%d' % e


def to_text(c):
    secs = [' '.join(_e(e) for e in c['init'])]
    for i, (adv, err, new) in enumerate(c['jobs']):
        extra = (['S'] if i in c.get('stop', []) else []) + ['C%d' % t for t in c.get('cancel', {}).get(i, [])]
        secs.append(' '.join(['%d' % adv, '1' if err else '0'] + extra + [_e(e) for e in new]))
    return ';'.join(secs)


def to_coq(c):
    def el(l):
        return '[' + '; '.join('(%d, %d, %d)' % e for e in l) + ']'
    def b(x):
        return 'true' if x else 'false'
    tbl = '[' + '; '.join('mkDB %d %s %s [%s] %s' % (adv, b(err), b(i in c.get('stop', [])),
                                                     '; '.join('%d' % t for t in c.get('cancel', {}).get(i, [])), el(new))
                          for i, (adv, err, new) in enumerate(c['jobs'])) + ']'
    return 'full_case %s %s %d %d %d' % (tbl, el(c['init']), c['n'], c['bump'], c['m'])


def from_text(text, n, bump, m):
    """inverse of to_text (replay files)"""
    secs = text.split(';')

    def enq(t):
        return tuple(int(x) for x in t.split(':'))
    c = {'init': [enq(t) for t in secs[0].split()], 'jobs': [], 'stop': [], 'cancel': {}, 'n': n, 'bump': bump, 'm': m, 'features': []}
    for i, sec in enumerate(secs[1:]):
        w = sec.split()
        new = []
        for tok in w[2:]:
            if tok == 'S':
                c['stop'].append(i)
            elif tok.startswith('C'):
                c['cancel'].setdefault(i, []).append(int(tok[1:]))
            else:
                new.append(enq(tok))
        c['jobs'].append((int(w[0]), w[1] == '1', new))
    c['text'] = text
    return c


def mode(c):
    return 'jloop:%d:%d:%d' % (c['n'], c['bump'], c['m'])
