"""C16: generator of native-job behaviour tables for the run_jobs_async loop correspondence (harness mode `jloop`,
model coq/C16/LoopCase.v `loop_case`).

A case: {'init': [(kind, delay, id)], 'jobs': [(adv, err, [(kind, delay, id)])], 'n', 'bump', 'm', 'features'}
kind 0 = promise job, 1 = generic job, 2 = timeout job.  Job i logs itself, moves the clock forward by adv ms,
enqueues its list in order and returns Err iff err.

Structured stream: the enqueue graph is a DAG (children have larger ids) and every id is enqueued at most twice,
so every run terminates; delays and clock advances are small so that `key == now` / `key < now` boundaries are hit
often.  Edge stream (15 %): ids outside the table, an empty initial queue, a job that re-enqueues itself once (runs
until the poll limit), tiny poll limits.
"""


def _pick(r, weighted):
    tot = sum(w for w, _ in weighted)
    x = r.random() * tot
    for w, v in weighted:
        x -= w
        if x <= 0:
            return v
    return weighted[-1][1]


def generate(r):
    feat = set()
    edge = r.random() < 0.15
    n = r.choice([2, 3, 4, 5, 6, 8, 10, 12])
    uses = [0] * n

    def enq(lo):
        cands = [c for c in range(lo, n) if uses[c] < 2]
        if not cands:
            return None
        c = r.choice(cands[:4]) if r.random() < 0.7 else r.choice(cands)
        uses[c] += 1
        k = _pick(r, [(4, 0), (2, 1), (3, 2)])
        d = r.choice([0, 0, 1, 1, 2, 3, 5, 10, 20]) if k == 2 else 0
        feat.add(('promise', 'generic', 'timeout')[k])
        return (k, d, c)

    init = [e for e in (enq(0) for _ in range(r.choice([1, 2, 2, 3, 4]))) if e]
    errp = r.choice([0, 0, 0.05, 0.15])
    jobs = []
    for i in range(n):
        adv = r.choice([0, 0, 0, 1, 1, 2, 3, 5, 10])
        err = r.random() < errp
        if err:
            feat.add('err')
        new = [e for e in (enq(i + 1) for _ in range(r.choice([0, 0, 1, 1, 2, 3]))) if e]
        jobs.append((adv, err, new))
    if edge:
        feat.add('edge')
        k = r.choice(['outside', 'empty-init', 'self', 'self', 'tiny'])
        feat.add('edge-' + k)
        if k == 'outside':
            i = r.randrange(n)
            jobs[i] = (jobs[i][0], jobs[i][1], jobs[i][2] + [(r.choice([0, 1, 2]), r.choice([0, 3]), n + r.randrange(3))])
        elif k == 'empty-init':
            init = []
        elif k == 'self':
            i = r.randrange(n)
            jobs[i] = (jobs[i][0], False, jobs[i][2] + [(r.choice([0, 1, 2]), r.choice([0, 1, 4]), i)])
            if not any(c == i for _, _, c in init):
                init.append((r.choice([0, 1, 2]), 0, i))
    np_ = r.choice([1, 2, 3, 5, 8, 50, 50, 50]) if not edge else r.choice([1, 1, 2, 3, 50])
    bump = r.choice([0, 1, 5, 1000, 1000])
    m = r.choice([1, 3, 50, 50])
    case = {'init': init, 'jobs': jobs, 'n': np_, 'bump': bump, 'm': m, 'features': sorted(feat)}
    case['text'] = to_text(case)
    return case


def _e(e):
    return '%d:%d:%d' % e


def to_text(c):
    secs = [' '.join(_e(e) for e in c['init'])]
    for adv, err, new in c['jobs']:
        secs.append(' '.join(['%d' % adv, '1' if err else '0'] + [_e(e) for e in new]))
    return ';'.join(secs)


def to_coq(c):
    def el(l):
        return '[' + '; '.join('(%d, %d, %d)' % e for e in l) + ']'
    tbl = '[' + '; '.join('mkB %d %s %s' % (adv, 'true' if err else 'false', el(new)) for adv, err, new in c['jobs']) + ']'
    return 'loop_case %s %s %d %d %d' % (tbl, el(c['init']), c['n'], c['bump'], c['m'])


def mode(c):
    return 'jloop:%d:%d:%d' % (c['n'], c['bump'], c['m'])
