"""C11 case generator: (A, B, from, p1, p2, byte) with A/B lists of UTF-16 code units.

Streams (all seeded by the caller's rng):
  exh      strings of <= 3 alphabet entries (ASCII, Latin-1 high, BMP, lone surrogates, an astral pair), B derived from A
  rand     random strings up to length 64 in five unit distributions
  ws       whitespace-heavy strings (trim)
  needle   haystack/needle pairs, needle drawn from substrings / prefixes / suffixes / near misses of the haystack
  static   well-known static strings and near misses (StaticJsStrings canonicalisation)
  str      pairs aimed at `JsStr == str` (equal / prefix / same bytes-different units)
  edge     malformed / boundary stream: lone surrogates at the ends, reversed pairs, out-of-range indices
"""
import itertools

ALPHA = [[0x61], [0x41], [0x20], [0x30], [0x7f], [0xe9], [0xff], [0xa0], [0x3c0], [0x2028], [0xfeff], [0xd800],
         [0xdc00], [0xd83d, 0xde00], [0x0a]]
POOL = [0x61, 0x62, 0x41, 0x20, 0x30, 0x7f, 0x00, 0x09, 0x0a, 0x0b, 0x0c, 0x0d, 0x80, 0x85, 0xa0, 0xe9, 0xff, 0x100, 0x3c0,
        0x1680, 0x2000, 0x200a, 0x200b, 0x2028, 0x2029, 0x202f, 0x205f, 0x3000, 0xfeff, 0xd7ff, 0xd800, 0xdbff, 0xdc00,
        0xdfff, 0xe000, 0xfffd, 0xffff, 0xd83d, 0xde00, 0x180e]
WS = [0x09, 0x0a, 0x0b, 0x0c, 0x0d, 0x20, 0xa0, 0x1680, 0x2000, 0x2005, 0x200a, 0x2028, 0x2029, 0x202f, 0x205f, 0x3000, 0xfeff]
NEAR_WS = [0x85, 0x200b, 0x180e, 0x1c, 0x1f, 0x2007, 0x2060, 0xfffe, 0x61, 0xe9, 0x3c0, 0xd800]
STATICS = ["", "length", "name", "prototype", "Symbol.iterator", "constructor", "toString", "NFC", "number", "default",
           "string", "undefined", "a", "0", "[Symbol.iterator]"]


def units_of(s):
    b = s.encode("utf-16-le", "surrogatepass")
    return [b[i] | (b[i + 1] << 8) for i in range(0, len(b), 2)]


def exh_strings(maxlen=3):
    out = [[]]
    for n in range(1, maxlen + 1):
        for combo in itertools.product(ALPHA, repeat=n):
            out.append([u for e in combo for u in e])
    return out


def rand_units(rng, maxlen):
    n = rng.randrange(4) if rng.random() < 0.25 else rng.randrange(maxlen + 1)
    mode = rng.randrange(5)
    out = []
    for _ in range(n):
        if mode == 0:
            out.append(rng.choice(POOL[:7]))
        elif mode == 1:
            out.append(rng.choice(POOL[:17]))
        elif mode == 2:
            out.append(rng.choice([0x20, 0x09, 0xa0, 0xfeff, 0x2028, 0x61, 0xe9, 0x3c0]))
        elif mode == 3:
            out.append(rng.randrange(0x10000))
        else:
            out.append(rng.choice(POOL))
    return out


def needle_of(rng, a, maxlen=6):
    k = rng.randrange(8)
    n = len(a)
    if k in (0, 1) and n:
        i = rng.randrange(n)
        j = i + rng.randrange(n - i + 1)
        return a[i:j], "substring"
    if k == 2:
        return a[:rng.randrange(n + 1)], "prefix"
    if k == 3:
        return a[rng.randrange(n + 1):], "suffix"
    if k == 4:
        v = list(a)
        if v:
            v[rng.randrange(len(v))] = rng.choice(POOL)
        if rng.random() < 0.5:
            v.append(0x3c0)
        return v, "near-miss"
    if k == 5:
        return list(a), "equal"
    if k == 6 and n:
        # same units, shifted by one position: overlapping matches
        return a[1:] + a[:1], "rotation"
    return rand_units(rng, maxlen), "random"


def args_for(rng, a):
    n = len(a)
    return (rng.randrange(n + 3), rng.randrange(n + 2), rng.randrange(n + 3), rng.choice(POOL[:17]))


def case(a, b, rng, stream, rel):
    f, p1, p2, byte = args_for(rng, a)
    return {"a": a, "b": b, "from": f, "p1": p1, "p2": p2, "byte": byte, "stream": stream, "rel": rel}


def generate(rng, quick):
    cases = []
    # exhaustive / seeded subset of the alphabet strings
    allexh = exh_strings(3)
    picks = allexh if not quick else ([s for s in allexh if len(s) <= 2 and rng.random() < 0.35] + rng.sample(allexh, 160))
    for a in picks:
        b, rel = needle_of(rng, a)
        cases.append(case(a, b, rng, "exh", rel))
    # every index combination on a few short strings (slice clamping, get, code_point_at at all positions)
    for a in rng.sample(allexh, 12 if quick else 120):
        n = len(a)
        for p1 in range(n + 2):
            for p2 in range(n + 2):
                c = case(a, a[p1:p2] if p1 <= p2 else a[::-1], rng, "exh-idx", "index-grid")
                c.update({"p1": p1, "p2": p2, "from": p1})
                cases.append(c)
    nrand = 250 if quick else 4000
    for _ in range(nrand):
        a = rand_units(rng, 64)
        b, rel = needle_of(rng, a)
        cases.append(case(a, b, rng, "rand", rel))
    # whitespace heavy
    for _ in range(120 if quick else 1500):
        core = rand_units(rng, 5)
        lead = [rng.choice(WS + NEAR_WS[:4]) for _ in range(rng.randrange(4))]
        trail = [rng.choice(WS + NEAR_WS[:4]) for _ in range(rng.randrange(4))]
        if rng.random() < 0.2:
            core = []
        if rng.random() < 0.3:
            lead = [x for x in lead if x < 0x100]
            trail = [x for x in trail if x < 0x100]
            core = [x for x in core if x < 0x100]
        a = lead + core + trail
        b, rel = needle_of(rng, a)
        cases.append(case(a, b, rng, "ws", rel))
    for w in WS + NEAR_WS:
        cases.append(case([w], [w], rng, "ws", "single"))
        cases.append(case([0x61, w], [w, 0x61], rng, "ws", "single"))
    # needle / haystack with all from-indices
    for _ in range(40 if quick else 500):
        a = rand_units(rng, 12)
        b, rel = needle_of(rng, a, 3)
        for f in range(len(a) + 2):
            c = case(a, b, rng, "needle", rel)
            c["from"] = f
            cases.append(c)
    # statics
    for s in STATICS:
        u = units_of(s)
        for b in (u, u[:-1], u + [0x3c0], u[1:]):
            cases.append(case(u, b, rng, "static", "static"))
    # `== str` oriented
    strs = ["", "a", "ab", "é", "Ã©", "abπ", "π", "\U0001f600", "a\U0001f600", "NFC", "NFCπ",
            "number", "numberπ", "ÿ", "Ā", "éé", "éa", "~\u007f\u0080"]
    for s in strs:
        u = units_of(s)
        for t in strs:
            cases.append(case(u, units_of(t), rng, "str", "str-table"))
        utf8 = list(s.encode("utf8"))
        cases.append(case(utf8, u, rng, "str", "utf8-bytes-as-units"))
        cases.append(case(u, utf8, rng, "str", "utf8-bytes-as-str"))
    for _ in range(60 if quick else 800):
        a = [x for x in rand_units(rng, 10) if not 0xd800 <= x <= 0xdfff]
        k = rng.randrange(4)
        b = a if k == 0 else a[:rng.randrange(len(a) + 1)] if k == 1 else a + [rng.choice(POOL[:20])] if k == 2 else [x for x in rand_units(rng, 10) if not 0xd800 <= x <= 0xdfff]
        cases.append(case(a, b, rng, "str", ["equal", "prefix", "extension", "random"][k]))
    # malformed / boundary
    edge = [[0xd800], [0xdc00], [0xdc00, 0xd800], [0xd800, 0xd800], [0xd800, 0xdc00], [0xdbff, 0xdfff], [0xd800, 0x61],
            [0x61, 0xd800], [0xdbff], [0xdfff, 0xdfff], [0xffff], [0], [0, 0], [0xd7ff, 0xe000], [0xd83d, 0xde00, 0xd83d],
            [0xde00, 0xd83d, 0xde00], [0x20, 0xd800, 0x20], [0xfeff, 0xdc00, 0xfeff]]
    for a in edge:
        for b in (a, a[:1], a[1:], [], a + a):
            for (p1, p2) in ((0, len(a)), (1, len(a) + 1), (len(a), 0), (len(a) + 1, len(a) + 1), (0, 1)):
                c = case(a, b, rng, "edge", "edge")
                c.update({"p1": p1, "p2": p2})
                cases.append(c)
    return cases


def describe(cases):
    """Measured distribution of a generated case list."""
    d = {"by_stream": {}, "by_relation": {}, "len_a_hist": {}, "a_latin1_able": 0, "a_ascii": 0, "a_has_lone_surrogate": 0,
         "a_has_astral_pair": 0, "b_valid_str": 0, "a_empty": 0, "index_of_from_gt_len": 0, "p1_gt_p2": 0}

    def lone(u):
        i = 0
        while i < len(u):
            if 0xd800 <= u[i] <= 0xdbff and i + 1 < len(u) and 0xdc00 <= u[i + 1] <= 0xdfff:
                i += 2
                continue
            if 0xd800 <= u[i] <= 0xdfff:
                return True
            i += 1
        return False
    for c in cases:
        a, b = c["a"], c["b"]
        d["by_stream"][c["stream"]] = d["by_stream"].get(c["stream"], 0) + 1
        d["by_relation"][c["rel"]] = d["by_relation"].get(c["rel"], 0) + 1
        bucket = "0" if not a else "1-3" if len(a) <= 3 else "4-8" if len(a) <= 8 else "9-32" if len(a) <= 32 else "33-64"
        d["len_a_hist"][bucket] = d["len_a_hist"].get(bucket, 0) + 1
        d["a_latin1_able"] += all(x < 256 for x in a)
        d["a_ascii"] += all(x < 128 for x in a)
        d["a_has_lone_surrogate"] += lone(a)
        d["a_has_astral_pair"] += any(0xd800 <= a[i] <= 0xdbff and 0xdc00 <= a[i + 1] <= 0xdfff for i in range(len(a) - 1))
        d["b_valid_str"] += not lone(b)
        d["a_empty"] += not a
        d["index_of_from_gt_len"] += c["from"] > len(a)
        d["p1_gt_p2"] += c["p1"] > c["p2"]
    d["total"] = len(cases)
    return d
