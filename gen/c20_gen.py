"""C20 generators (all randomness from the rng passed in).

keys_case(rng)      property add/delete histories over 1-2 objects -> (JS text, [(object, ops-prefix)] checkpoints)
mapset_program(rng) Map/Set programs with mutation during iteration that LOG every operation they perform
program(rng)        determinism-search programs (enumeration order, Map/Set/WeakMap, symbols, sort ties,
                    string-key collisions, error messages with positions, toString) -- no Date/Math.random/timing
sabotage(rng)       a history for another context/realm: delete/replace every reachable intrinsic, poison prototypes
xrealm(rng)         cross-realm programs with their own expectation (every line must start with `ok`)
"""

# ------------------------------------------------------------------------------------------------
# (i) own-key histories

NONINDEX_NUMERIC = ["4294967295", "-1", "01", "1.5", "1e3", "-0", "4294967296", "0x1", " 1", "+1", "Infinity", "NaN"]
PLAIN = ["a", "b", "c", "length2", "x", "y", "z", "k", "constructor2", "valueOf2", "q0", "q1", "q2", "q3", "__p", "$", "\u00e9", "kk"]
LARGE_IDX = [2147483647, 2147483648, 4294967294, 4294967293, 65535, 65536, 1000000, 16777216]


def _idx_key(rng, hi):
    r = rng.random()
    if r < 0.55:
        return rng.randrange(0, hi)
    if r < 0.85:
        return rng.randrange(0, 400)
    return rng.choice(LARGE_IDX)


def keys_case(rng, big=False):
    """Returns (js, checkpoints, feats).  checkpoints: list of (label, initial_ops + ops prefix) where ops are
    ('D'|'d'|'X', ('i',n)|('s',name)|('y',symid)): D = simple define (o[k]=v), d = non-simple define, X = delete."""
    nobj = 1 if rng.random() < 0.6 else 2
    kind = [rng.choice(["obj", "obj", "arr", "lit", "cls"]) for _ in range(nobj)]
    nsym = 4
    js = ["var s0=Symbol('s0'),s1=Symbol('s1'),s2=Symbol('s2'),s3=Symbol('s3');",
          "function show(t,o){var a=Reflect.ownKeys(o).map(function(k){return typeof k==='symbol'?'Y'+k.description:'K'+k});"
          "var f=[];for(var k in o)f.push(k);var j=[];if(!Array.isArray(o))JSON.stringify(o,function(k,v){if(k!=='')j.push(k);return v});"
          "print(t,JSON.stringify(a),JSON.stringify(Object.keys(o)),JSON.stringify(f),JSON.stringify(j),"
          "JSON.stringify(Object.getOwnPropertyNames(o)),JSON.stringify(Object.entries(o).map(function(e){return e[0]})))}"]
    hist = [[] for _ in range(nobj)]
    init = [[] for _ in range(nobj)]
    names = ["o%d" % i for i in range(nobj)]
    feats = set()
    hi = rng.choice([6, 12, 40]) if not big else rng.choice([40, 200])

    def keyjs(k):
        if k[0] == "i":
            return "[%d]" % k[1] if rng.random() < 0.7 else "['%d']" % k[1]
        if k[0] == "s":
            return "[%r]" % k[1] if not k[1].isidentifier() or rng.random() < 0.3 else "." + k[1]
        return "[s%d]" % k[1]

    def rand_key():
        r = rng.random()
        if r < 0.6:
            return ("i", _idx_key(rng, hi))
        if r < 0.72:
            return ("s", rng.choice(NONINDEX_NUMERIC))
        if r < 0.9:
            return ("s", rng.choice(PLAIN))
        return ("y", rng.randrange(nsym))

    for i in range(nobj):
        k = kind[i]
        if k == "obj":
            js.append("var %s={};" % names[i])
        elif k == "arr":
            js.append("var %s=[];" % names[i])
            init[i].append(("D", ("s", "length")))
        elif k == "fn":
            js.append("var %s=function(){};" % names[i])
            # boa: own keys of an ordinary function object: length, name, prototype
            js.append("delete %s.length;delete %s.name;delete %s.prototype;" % (names[i], names[i], names[i]))
            init[i].append(("D", ("s", "prototype")))    # prototype is not configurable: stays
        elif k == "cls":
            js.append("var %s=Object.create({inherited:1});" % names[i])
            feats.add("proto-enumerable")
        else:
            # object literal with the first few distinct keys
            n = rng.randrange(1, 6)
            ks = []
            for _ in range(n):
                kk = rand_key()
                if kk not in ks and not (kk[0] == "s" and kk[1] == "__proto__"):
                    ks.append(kk)
            parts = []
            for kk in ks:
                if kk[0] == "i":
                    parts.append("%d:1" % kk[1])
                elif kk[0] == "s":
                    parts.append("%r:1" % kk[1])
                else:
                    parts.append("[s%d]:1" % kk[1])
                init[i].append(("D", kk))
            js.append("var %s={%s};" % (names[i], ",".join(parts)))
            feats.add("literal")
    checkpoints = []
    nops = rng.choice([8, 20, 40]) if not big else rng.choice([80, 200, 400])
    phase = rng.choice(["mixed", "dense-then-holes", "sparse-random", "grow-shrink"])
    feats.add(phase)
    cp_at = set(rng.sample(range(nops), min(3, nops)))
    for step in range(nops):
        oi = rng.randrange(nobj)
        o = names[oi]
        r = rng.random()
        if phase == "dense-then-holes" and step < nops // 2:
            dense_len = sum(1 for op in hist[oi] if op[0] == "D" and op[1][0] == "i")
            k = ("i", dense_len)
            op = "D"
        elif phase == "sparse-random" and r < 0.7:
            k = ("i", rng.randrange(0, 5000) * rng.choice([1, 1, 7, 4099]))
            k = ("i", min(k[1], 4294967294))
            op = "D"
        elif phase == "grow-shrink" and r < 0.5:
            live = [op[1] for op in hist[oi] if op[0] != "X" and op[1][0] == "i"]
            if live and rng.random() < 0.6:
                k = ("i", max(x[1] for x in live))
                op = "X"
            else:
                k = ("i", (max([x[1] for x in live]) + 1) if live else 0)
                op = "D"
        else:
            k = rand_key()
            op = "D" if r < 0.5 else ("d" if r < 0.65 else "X")
        if k[0] == "i" and k[1] > 4294967294:
            k = ("s", str(k[1]))     # 2^32-1 and above are not array indices
        if kind[oi] == "arr" and k == ("s", "length"):
            continue
        if kind[oi] == "cls" and k == ("s", "inherited"):
            continue
        kj = keyjs(k)
        if op == "D":
            js.append("%s%s=%d;" % (o, kj, step))
            # assignment to a key that is an accessor/readonly cannot happen: all our properties are data+configurable
        elif op == "d":
            key_expr = kj[1:-1] if kj.startswith("[") else repr(kj[1:])
            js.append("Object.defineProperty(%s,%s,{value:%d,writable:false,enumerable:true,configurable:true});" % (o, key_expr, step))
            feats.add("non-simple")
        else:
            js.append("delete %s%s;" % (o, kj))
            feats.add("delete")
        hist[oi].append((op, k))
        if k[0] == "i" and k[1] >= 65535:
            feats.add("large-index")
        if k[0] == "s" and k[1] in NONINDEX_NUMERIC:
            feats.add("numeric-nonindex")
        if k[0] == "y":
            feats.add("symbol")
        if step in cp_at or step == nops - 1:
            lab = "c%d_%d" % (len(checkpoints), oi)
            js.append("show(%r,%s);" % (lab, o))
            checkpoints.append((lab, oi, kind[oi], list(init[oi]) + list(hist[oi])))
    # writes through a non-writable property silently fail in sloppy mode: the model treats D on an existing key as a no-op for keys
    return "\n".join(js), checkpoints, sorted(feats) + ["kind-" + x for x in kind]


# ------------------------------------------------------------------------------------------------
# (ii) Map / Set programs that log what they do

MAP_PRELUDE = r"""
var cid=0, its=[], SETMODE=%s;
var m = SETMODE ? new Set() : new Map();
function S(k,v){ if(SETMODE){m.add(k);print('S',k,0)}else{m.set(k,v);print('S',k,v)} }
function D(k){ print('D',k,m.delete(k)) }
function C(){ m.clear(); print('C') }
function G(k){ if(SETMODE)return; var v=m.get(k); print('G',k,v===undefined?'u':v) }
function H(k){ print('H',k,m.has(k)) }
function Z(){ print('Z',m.size) }
function I(kind){ var c=cid++; its[c]={it:(kind==='iter'?m[Symbol.iterator]():m[kind]()),kind:kind}; print('I'); return c }
function N(c){ var e=its[c]; if(!e||!e.it)return; var r=e.it.next();
  if(r.done){print('N',c,'done');return}
  var x=r.value, kd=e.kind;
  if(SETMODE){ if(kd==='entries'){ if(x[0]!==x[1])print('BAD entries pair'); print('N',c,x[0],0) } else print('N',c,x,0) }
  else if(kd==='keys')print('N',c,x,'?'); else if(kd==='values')print('N',c,'?',x); else print('N',c,x[0],x[1]) }
function X(c){ var e=its[c]; if(e&&e.it){e.it=null; $iso.gc(); print('X',c)} }
function F(body){ var c=cid++; its[c]=null; print('F'); var n=0;
  try{ m.forEach(function(a,b){ var k=SETMODE?a:b, v=SETMODE?0:a; print('N',c,k,v); if(++n>%d)throw 'cap'; body(k,v,n) }); print('N',c,'done') }
  catch(e){ if(e!=='cap')throw e; print('X',c) } }
function FO(body){ var c=cid++; its[c]=null; print('I'); var n=0, brk=false;
  for(var x of m){ var k=SETMODE?x:x[0], v=SETMODE?0:x[1]; print('N',c,k,v); if(++n>%d){brk=true;break} body(k,v,n) }
  if(!brk)print('N',c,'done'); }
"""


def _kexpr(rng, inner):
    if inner and rng.random() < 0.4:
        return rng.choice(["k", "(k+1)%8", "(k+7)%8", "(k*3)%8", "n%8", "(k+n)%8"])
    return str(rng.randrange(0, 8))


def _stmts(rng, depth, inner, n, feats):
    out = []
    for _ in range(n):
        r = rng.random()
        if r < 0.24:
            out.append("S(%s,%d);" % (_kexpr(rng, inner), rng.randrange(100)))
        elif r < 0.42:
            out.append("D(%s);" % _kexpr(rng, inner))
            if inner:
                feats.add("delete-during-iteration")
        elif r < 0.47:
            out.append("C();")
            feats.add("clear-in-iteration" if inner else "clear")
        elif r < 0.52:
            out.append("G(%s);" % _kexpr(rng, inner))
        elif r < 0.56:
            out.append("H(%s);" % _kexpr(rng, inner))
        elif r < 0.62:
            out.append("Z();")
        elif r < 0.70:
            out.append("I(%r);" % rng.choice(["entries", "entries", "keys", "values", "iter"]))
        elif r < 0.86:
            out.append("N(%s);" % rng.choice(["0", "1", "2", "cid-1", "cid-2", "(cid>>1)"]))
            feats.add("explicit-next")
        elif r < 0.89:
            out.append("X(%s);" % rng.choice(["0", "1", "cid-1"]))
            feats.add("drop")
        elif depth < 2:
            body = " ".join(_stmts(rng, depth + 1, True, rng.randrange(1, 4), feats))
            cond = rng.choice(["", "", "if(n==1)", "if(n==2)", "if(k%2)", "if(n<3)"])
            which = "F" if rng.random() < 0.7 else "FO"
            out.append("%s(function(k,v,n){%s{%s}});" % (which, cond, body))
            feats.add("forEach" if which == "F" else "for-of")
            if depth >= 1:
                feats.add("nested-iteration")
        else:
            out.append("Z();")
    return out


def mapset_program(rng, big=False):
    setmode = rng.random() < 0.4
    feats = {"Set" if setmode else "Map"}
    cap = rng.choice([6, 10])
    js = [MAP_PRELUDE % ("true" if setmode else "false", cap, cap)]
    for k in range(rng.randrange(0, 6)):
        js.append("S(%d,%d);" % (rng.randrange(8), rng.randrange(100)))
    js += _stmts(rng, 0, False, rng.randrange(6, 16) if not big else rng.randrange(20, 60), feats)
    # drain what is left
    js.append("for(var q=0;q<cid;q++){N(q);N(q);N(q)}")
    js.append("Z();")
    return "\n".join(js), setmode, sorted(feats)


# ------------------------------------------------------------------------------------------------
# determinism search programs

def _lit_obj(rng, n=None):
    n = n or rng.randrange(2, 9)
    parts = []
    for _ in range(n):
        r = rng.random()
        if r < 0.4:
            parts.append("%d:%d" % (_idx_key(rng, 12), rng.randrange(9)))
        elif r < 0.6:
            parts.append("%r:%d" % (rng.choice(NONINDEX_NUMERIC), rng.randrange(9)))
        elif r < 0.9:
            parts.append("%s:%d" % (rng.choice(["a", "b", "c", "x", "y", "zz", "k1"]), rng.randrange(9)))
        else:
            parts.append("[Symbol(%r)]:%d" % (rng.choice(["p", "q", ""]), rng.randrange(9)))
    return "{" + ",".join(parts) + "}"


def _words(rng, n):
    # many similar strings: shared prefixes/suffixes, permutations, lengths around inline/heap thresholds
    base = ["ab", "ba", "aab", "aba", "baa", "key", "yek", "k", "", "Aa", "BB", "AaAa", "BBBB", "AaBB", "BBAa", "\u00e9", "e\u0301"]
    out = []
    for i in range(n):
        w = rng.choice(base) + str(rng.randrange(40)) * rng.choice([0, 1, 1, 3]) + rng.choice(base)
        out.append(w)
    return out


def sn_enum(rng):
    o = _lit_obj(rng)
    v = "o%d" % rng.randrange(1000)
    muts = []
    for _ in range(rng.randrange(0, 6)):
        r = rng.random()
        if r < 0.5:
            muts.append("%s[%d]=1;" % (v, _idx_key(rng, 20)))
        elif r < 0.7:
            muts.append("delete %s[%d];" % (v, _idx_key(rng, 12)))
        elif r < 0.85:
            muts.append("%s.%s=2;" % (v, rng.choice(["a", "n", "m", "zz"])))
        else:
            muts.append("Object.defineProperty(%s,%r,{value:3,enumerable:%s,configurable:true});" % (v, rng.choice(["h", "5", "77"]), rng.choice(["true", "false"])))
    uses = rng.sample([
        "print(JSON.stringify(Object.keys(%s)));",
        "var f=[];for(var k in %s)f.push(k);print(f.join());",
        "print(JSON.stringify(%s));",
        "print(Reflect.ownKeys(%s).map(String).join('|'));",
        "print(JSON.stringify(Object.entries(%s)));",
        "print(JSON.stringify(Object.assign({z:0},%s)));",
        "print(JSON.stringify({...%s,a:9}));",
        "print(Object.getOwnPropertyNames(%s).join());",
        "print(JSON.stringify(Object.values(%s)));",
        "print(Object.getOwnPropertySymbols(%s).map(String).join());",
        "print(JSON.stringify(Object.fromEntries(Object.entries(%s).reverse())));",
        "print(JSON.stringify(Object.getOwnPropertyDescriptors(%s)));",
    ], rng.randrange(2, 6))
    return "var %s=%s;%s\n%s" % (v, o, "".join(muts), "\n".join(u % v for u in uses))


def sn_builtin_keys(rng):
    subj = rng.choice([
        "function f(a,b){}", "class A{static x=1;static m(){};y=2}", "(function(){return arguments})(1,2,3)", "new String('abc')",
        "[1,,3]", "Object.assign([1,2],{p:1})", "new Error('boom')", "new Uint8Array(3)", "Math", "JSON", "Reflect", "Symbol", "Object.prototype",
        "Array.prototype", "Function.prototype", "globalThis.Map.prototype", "Promise", "(async function(){}).constructor.prototype",
        "(function*(){})()", "Number", "String.prototype", "new Proxy({b:1,a:2,1:3},{})", "Object.create(null,{x:{value:1,enumerable:true},3:{value:2}})",
        "new Map().entries()", "new (class B extends Array{})(2)", "Object.freeze({q:1,0:2})", "/a/g", "new Boolean(true)", "Intl",
    ])
    return ("try{var t=%s;print(Reflect.ownKeys(t).map(String).join('|'));var f=[];for(var k in t)f.push(k);print(f.join());"
            "print(Object.prototype.toString.call(t))}catch(e){print('E',e.name,e.message)}" % subj)


def sn_mapset(rng):
    ws = _words(rng, rng.randrange(3, 12))
    v = "m%d" % rng.randrange(1000)
    lines = ["var %s=new Map();var ko={id:1},kf=function(){},ks=Symbol('mk');" % v]
    for i, w in enumerate(ws):
        lines.append("%s.set(%r,%d);" % (v, w, i))
    lines.append("%s.set(ko,'o').set(kf,'f').set(ks,'s').set(NaN,'nan').set(-0,'z').set(1,'one').set('1','sone').set(1n,'big');" % v)
    for _ in range(rng.randrange(0, 5)):
        lines.append(rng.choice(["%s.delete(%r);" % (v, rng.choice(ws)), "%s.set(%r,'again');" % (v, rng.choice(ws)), "%s.delete(ko);%s.set(ko,'o2');" % (v, v)]))
    lines.append("var out=[];%s.forEach(function(val,key){out.push(String(typeof key==='symbol'?'sym':key)+'='+String(val));if(out.length==2)%s.delete(%r);if(out.length==3)%s.set('late',1)});print(out.join(';'));" % (v, v, rng.choice(ws), v))
    lines.append("print([...%s.keys()].map(function(k){return typeof k}).join(),%s.size,%s.get(0),%s.has(NaN));" % (v, v, v, v))
    lines.append("var st=new Set(%s);st.add(ko);st.add(ks);print([...st].map(String).join('|'));" % repr(ws + ws[:2]))
    lines.append("var wm=new WeakMap([[ko,1],[kf,2]]),ws=new WeakSet([ko]);print(wm.get(ko),wm.has(kf),wm.has({}),ws.has(ko),wm.delete(kf),wm.has(kf));")
    if rng.random() < 0.5:
        lines.append("try{print(JSON.stringify(Object.groupBy(%s,function(w){return w.length})))}catch(e){print('E',e.name)}" % repr(ws))
        lines.append("try{var g=Map.groupBy(%s,function(w){return w.length%%2?ko:kf});print([...g.values()].map(String).join('/'))}catch(e){print('E',e.name)}" % repr(ws))
    if rng.random() < 0.5:
        lines.append("try{var A=new Set([3,1,2,'x']),B=new Set(['x',2,9]);print([...A.union(B)].join(),[...A.intersection(B)].join(),[...A.difference(B)].join(),[...A.symmetricDifference(B)].join())}catch(e){print('E',e.name)}")
    return "\n".join(lines)


def sn_symbols(rng):
    d = rng.choice(["", "desc", "a b", "\u00e9", "0", "Symbol.iterator"])
    return "\n".join([
        "var sy=Symbol(%r),sn=Symbol(),sf=Symbol.for(%r);" % (d, d),
        "print(sy.toString(),sy.description,sn.toString(),String(sn.description),sf.description,Symbol.keyFor(sf),String(Symbol.keyFor(sy)));",
        "print(Symbol.for(%r)===sf,Object(sy).toString(),Object.prototype.toString.call(sy),typeof Object(sy));" % d,
        "print([Symbol.iterator,Symbol.asyncIterator,Symbol.hasInstance,Symbol.toPrimitive,Symbol.toStringTag,Symbol.species,Symbol.unscopables,Symbol.match].map(function(s){return s.description}).join());",
        "var so={};so[sy]=1;so[sn]=2;so[sf]=3;so[Symbol.iterator]=4;so.a=5;print(Object.getOwnPropertySymbols(so).map(String).join(),Reflect.ownKeys(so).length);",
        "try{print(sy+'')}catch(e){print(e.name+':'+e.message)}",
        "try{print(`${sy}`)}catch(e){print(e.name+':'+e.message)}",
    ])


def sn_sort(rng):
    n = rng.randrange(5, 40)
    items = ["{k:%d,i:%d}" % (rng.randrange(4), i) for i in range(n)]
    mixed = [rng.choice(["3", "'3'", "10", "'10'", "undefined", "null", "NaN", "'b'", "'B'", "-0", "0", "1e21", "'\u00e9'", "true", "[2]", "{}"]) for _ in range(rng.randrange(3, 12))]
    return "\n".join([
        "var sa=[%s];" % ",".join(items),
        "print(sa.slice().sort(function(a,b){return a.k-b.k}).map(function(x){return x.k+':'+x.i}).join());",
        "print(sa.slice().sort(function(a,b){return b.k-a.k}).map(function(x){return x.i}).join());",
        "try{print(sa.toSorted(function(a,b){return (a.k>>1)-(b.k>>1)}).map(function(x){return x.i}).join())}catch(e){print('E',e.name)}",
        "print([%s].sort().map(String).join('|'));" % ",".join(mixed),
        "print(%s.sort().join('|'));" % repr(_words(rng, rng.randrange(4, 14))),
        "var ho=[5,,3,,1];ho.sort();print(JSON.stringify(ho),ho.length,Object.keys(ho).join());",
        "print(Array.from({length:7},function(_,i){return (i*5)%7}).sort(function(){return 0}).join());",
    ])


def sn_strings(rng):
    ws = _words(rng, rng.randrange(20, 120))
    return "\n".join([
        "var W=%s,dd={},cnt=0;" % repr(ws),
        "for(var i=0;i<W.length;i++){if(!(W[i] in dd))cnt++;dd[W[i]]=(dd[W[i]]||0)+1}",
        "print(cnt,Object.keys(dd).length,Object.keys(dd).slice(0,12).join('|'));",
        "var ss=new Set(W);print(ss.size,[...ss].slice(-6).join('|'));",
        "for(var i=0;i<W.length;i+=3)delete dd[W[i]];print(Object.keys(dd).join('|').length,JSON.stringify(dd).length);",
        "var big={};for(var i=0;i<%d;i++)big['p'+((i*%d)%%97)+'_'+i]=i;var acc=0,n=0;for(var k in big){acc=(acc*31+big[k])%%1000003;n++}print(n,acc);" % (rng.randrange(50, 600), rng.choice([7, 13, 31])),
        "print(W.slice(0,5).map(function(w){return w.length+':'+w.charCodeAt(0)+':'+w.toUpperCase()+':'+w.localeCompare?1:0}).join());",
        "print([...W.slice(0,4).join('')].length,W.slice(0,4).join('').normalize?1:0,'a\\u0301'.normalize('NFC').length);",
    ])


def sn_errors(rng):
    bad = rng.choice(["var 1x", "let a; let a", "(", "a b", "function(){", "x = ;", "'unterminated", "/*", "1 +* 2", "return 1", "new.target", "`${", "({a:1,a:2,get a(){}})=1", "for(;;", "class{}", "yield = 1; function*g(){yield = 1}", "\\u0000", "0b2", "08.5n", "a?.b = 1", "import x from 'y'"])
    cases = [
        "try{null.x}catch(e){print(e.name,e.message)}",
        "try{undefinedVar}catch(e){print(e.name,e.message)}",
        "try{(void 0)()}catch(e){print(e.name,e.message)}",
        "try{var o={};o.f()}catch(e){print(e.name,e.message)}",
        "try{eval(%r)}catch(e){print(e.name,e.message)}" % bad,
        "try{new Function(%r)}catch(e){print(e.name,e.message)}" % bad,
        "try{JSON.parse(%r)}catch(e){print(e.name,e.message)}" % rng.choice(["{", "[1,]", "{\"a\":}", "nul", "\"\\x\"", "1 2", ""]),
        "try{new Array(-1)}catch(e){print(e.name,e.message)}",
        "try{(1).toFixed(1000)}catch(e){print(e.name,e.message)}",
        "try{'x'.repeat(-1)}catch(e){print(e.name,e.message)}",
        "try{Symbol()+1}catch(e){print(e.name,e.message)}",
        "try{BigInt(1.5)}catch(e){print(e.name,e.message)}",
        "try{1n+1}catch(e){print(e.name,e.message)}",
        "try{new (class A extends Object{constructor(){this.x}})}catch(e){print(e.name,e.message)}",
        "try{let q=q}catch(e){print(e.name,e.message)}",
        "try{const c=1;c=2}catch(e){print(e.name,e.message)}",
        "try{Object.defineProperty(Object.freeze({}),'a',{value:1})}catch(e){print(e.name,e.message)}",
        "try{(function r(){r()})()}catch(e){print(e.name,e.message.length>0)}",
        "try{[].reduce(function(){})}catch(e){print(e.name,e.message)}",
        "try{new Proxy({},null)}catch(e){print(e.name,e.message)}",
        "try{x in 1}catch(e){print(e.name,e.message)}",
        "try{({}) instanceof 5}catch(e){print(e.name,e.message)}",
        "try{decodeURIComponent('%')}catch(e){print(e.name,e.message)}",
        "var er=new RangeError('m',{cause:7});print(String(er),er.cause,Object.prototype.toString.call(er),Reflect.ownKeys(er).join(),typeof er.stack);",
        "try{throw new AggregateError([new Error('i')],'agg')}catch(e){print(e.name,e.message,e.errors.length)}",
    ]
    return "\n".join(rng.sample(cases, rng.randrange(3, 9)))


def sn_tostring(rng):
    cases = [
        "print(String(function f(a, b) { return a+b /* c */ }));",
        "print(String(class A { static s = 1; m() {} }));",
        "print((()=>1).toString(),(async x => x).toString(),(function*g(){}).toString());",
        "print(String(Symbol),String(Map.prototype.set),String(parseInt),String(Object.getOwnPropertyDescriptor(Map.prototype,'size').get));",
        "print(Object.prototype.toString.call(null),Object.prototype.toString.call([]),Object.prototype.toString.call(function(){}),Object.prototype.toString.call(new Map),Object.prototype.toString.call(1n),Object.prototype.toString.call((function(){return arguments})()));",
        "print(String([1,[2,[3,null,undefined]],{}]),String({}),`${[1,2]}`,[]+{}, [,]+'',String([[]]));",
        "print((0.1+0.2).toString(),(1e21).toString(),(1/3).toFixed(10),(255).toString(16),(-1.5e-7).toString(),(123.456).toPrecision(4),(0.000001234).toExponential(2),String(-0),(2**53+2).toString(36));",
        "print(JSON.stringify({a:[1,{b:undefined,c:function(){},d:Symbol()}],e:new Map,f:1e400,g:-0,h:'\\u2028\\ud800'},null,1));",
        "var ob={toString(){return 'T'},valueOf(){return 7}};print(`${ob}`,ob+'',ob*2,String(ob),[ob]+'' ,JSON.stringify({ob}));",
        "print(String(new Error('e')),String(new TypeError),String(Object.assign(new Error('x'),{name:'N'})),Error.prototype.toString.call({name:'a',message:'b'}));",
        "print(typeof globalThis,String(globalThis).slice(0,16),Object.prototype.toString.call(globalThis));",
        "print((function(){return typeof this}).call(5),(function(){'use strict';return typeof this}).call(5));",
        "print(new Boolean(false)+'',new Number(3)+1,new String('s')+1,[1,2,3].toString===Array.prototype.toString);",
        "print(String(1n<<70n),(123n).toString(2),BigInt.asUintN(8,-1n),typeof 1n,0n==0,1n<2);",
        "print(encodeURIComponent('\\u00e9 &\\ud83d\\ude00'),escape?escape('\\u00e9+'):0,'abc'.padStart(6,'12'),'\\u0130'.toLowerCase().length,'\\u00df'.toUpperCase());",
    ]
    return "\n".join(rng.sample(cases, rng.randrange(3, 8)))


def sn_control(rng):
    n = rng.randrange(3, 30)
    return "\n".join([
        "function* gen(n){for(var i=0;i<n;i++){var r=yield i*i;if(r)i+=r}}var gi=gen(%d),tr=[];for(var s=gi.next();!s.done;s=gi.next(tr.length%%3==0?1:0))tr.push(s.value);print(tr.join());" % n,
        "var cl=[];for(let i=0;i<4;i++)cl.push(function(){return i*%d});print(cl.map(function(f){return f()}).join());" % rng.randrange(2, 9),
        "var pr=[];Promise.resolve(1).then(function(v){pr.push('a'+v);return Promise.reject(2)}).catch(function(v){pr.push('b'+v)}).finally(function(){pr.push('c');print(pr.join())});Promise.all([1,Promise.resolve(2),{then(r){r(3)}}]).then(function(v){print('all',v.join())});queueMicrotask(function(){print('mt')});",
        "(async function(){try{await null;print('aw1');await Promise.reject(new Error('rej'))}catch(e){print('aw2',e.message)}})();print('sync');",
        "var acc=0;outer:for(var i=0;i<9;i++){for(var j=0;j<9;j++){if(j==%d)continue outer;if(i==%d)break outer;acc+=i*j}}print(acc);" % (rng.randrange(1, 8), rng.randrange(2, 9)),
        "var px=new Proxy({a:1,b:2},{ownKeys(t){return Reflect.ownKeys(t).reverse()},get(t,k){return k in t?t[k]*2:'none'}});print(Object.keys(px).join(),px.a,px.zz,JSON.stringify(px));",
        "class P{#x=1;static #c=0;get x(){return this.#x+P.#c++}static h(o){return #x in o}}var pp=new P;print(pp.x,pp.x,P.h(pp),P.h({}));",
        "var ta=new Float64Array([1.5,-0,NaN,Infinity]);print(Array.from(new Uint8Array(ta.buffer)).join(),ta.join(),new Int16Array([40000,-40000]).join());",
        "var {a:da=5,...dr}={b:2,c:3,1:4};var [d1,,d3=9,...d4]=[1,2,undefined,4,5];print(da,JSON.stringify(dr),d1,d3,d4.join());",
        "print([3,1,2].map(function(x){return x*2}).filter(function(x){return x>2}).reduce(function(a,b){return a+b},0),[1,[2,[3,[4]]]].flat(Infinity).join(),Array.from('abc',function(c){return c+c}).join(''),[1,2,3].at(-1),[1,2,3,4].findLast(function(x){return x%2}));",
        "var lbl=0;try{try{throw 1}finally{lbl+=1}}catch(e){lbl+=e*10}finally{lbl+=100}print(lbl,(function(){try{return 1}finally{lbl=5}})(),lbl);",
        "print('a-b_c'.split(/[-_]/).join(),'aBc'.replace(/b/i,function(m){return m+m}),/(\\d+)-(?<y>\\d+)/.exec('x12-34').groups.y,'xAyBz'.match(/[A-Z]/g).join(),'t'.codePointAt(0));",
    ][:])


SNIPPETS = [(sn_enum, 5), (sn_builtin_keys, 3), (sn_mapset, 4), (sn_symbols, 2), (sn_sort, 3), (sn_strings, 3), (sn_errors, 4), (sn_tostring, 3), (sn_control, 2)]


def program(rng):
    fns = [f for f, w in SNIPPETS for _ in range(w)]
    parts, feats = [], []
    for _ in range(rng.randrange(2, 6)):
        f = rng.choice(fns)
        body = f(rng)
        feats.append(f.__name__[3:])
        if rng.random() < 0.25:
            body = "(function(){\n%s\n})();" % body
        elif rng.random() < 0.15:
            body = "{'use strict';}\ntry{\n%s\n}catch(e){print('outer',e.name,e.message)}" % body
        parts.append(body)
    if rng.random() < 0.3:
        parts.append(rng.choice(["null.z;", "throw new Error('final '+[1,2]);", "undefinedFinal;", "42;", "'str';", "({}).x.y;", "Symbol('end');"]))
    return "\n".join(parts), sorted(set(feats))


# ------------------------------------------------------------------------------------------------
# sabotage histories

SAB_WALK = r"""
(function(){
  var names=Object.getOwnPropertyNames, syms=Object.getOwnPropertySymbols, gopd=Object.getOwnPropertyDescriptor, gpo=Object.getPrototypeOf, dp=Object.defineProperty;
  var seen=new WeakSet(), q=[globalThis], pairs=[], n=0;
  function has(o){return seen.has(o)}
  while(q.length && n<%d){
    var o=q.pop(); if(o===null||(typeof o!=='object'&&typeof o!=='function')||has(o))continue; seen.add(o); n++;
    var ks; try{ks=names(o).concat(syms(o))}catch(e){continue}
    for(var i=0;i<ks.length;i++){ var d; try{d=gopd(o,ks[i])}catch(e){continue} if(!d)continue;
      pairs[pairs.length]=[o,ks[i]];
      if('value' in d)q[q.length]=d.value; else {q[q.length]=d.get;q[q.length]=d.set} }
    try{q[q.length]=gpo(o)}catch(e){}
  }
  var poison=function(){throw 'poisoned'}, mode=%d;
  for(var i=pairs.length-1;i>=0;i--){
    var o=pairs[i][0],k=pairs[i][1];
    try{
      if(mode==0||(mode==2&&i%%2)){ if(!(delete o[k])) o[k]=poison }
      else if(mode==1){ o[k]=poison }
      else { dp(o,k,{get:poison,set:poison,configurable:true}) }
    }catch(e){ try{o[k]=i}catch(e2){} }
  }
})();
"""

SAB_EXTRA = [
    "Object.defineProperty(Object.prototype,'0',{get:function(){throw 'p0'},set:function(){throw 's0'},configurable:true});",
    "Object.prototype.then=function(r){r('hijack')};",
    "Object.prototype.toJSON=function(){return 'hijack'};Object.prototype.toString=function(){return 'hijack'};Object.prototype.valueOf=function(){return 666};",
    "Array.prototype[Symbol.iterator]=function(){return {next:function(){return {done:true}}}};",
    "Object.defineProperty(Array.prototype,'1',{set:function(){throw 'arr1'},get:function(){return 'evil'}});Array.prototype.length=7;",
    "Object.prototype.constructor=null;Function.prototype.call=null;Function.prototype.apply=null;Function.prototype.bind=null;",
    "Object.defineProperty(Object.prototype,'enumerable',{value:true});Object.defineProperty(Object.prototype,'get',{value:function(){return 'desc-hijack'}});Object.prototype.writable=true;Object.prototype.value='hijack';",
    "Symbol.prototype.toString=function(){return 'S!'};Object.defineProperty(Symbol.prototype,'description',{get:function(){return 'D!'}});",
    "Object.setPrototypeOf(Array.prototype,null);Object.setPrototypeOf(Function.prototype,null);Object.setPrototypeOf(Map.prototype,Set.prototype);",
    "globalThis.undefined2=1;globalThis.print=function(){};globalThis.$iso=null;Object.defineProperty(globalThis,'NaN2',{value:1});var Map=null,Set=null,Symbol=null,JSON=null,Reflect=null;",
    "for(var i=0;i<3000;i++){var o={};o['cache'+i]=i;o[Symbol('c'+i)]=i;Symbol.for('reg'+i);('s'+i+'_'+i).toUpperCase()}",
    "var sh={};for(var i=0;i<400;i++){sh['k'+i]=i}for(var i=0;i<400;i+=2){delete sh['k'+i]}var ws=[];for(var i=0;i<200;i++){var a={};a.x=1;a.y=2;a['z'+(i%7)]=3;ws.push(a)}",
    "Error.prototype.name='Hijacked';Error.prototype.message='hijacked';TypeError.prototype.name='TE!';Error.prototype.toString=function(){return 'E!'};Error.captureStackTrace=null;",
    "Number.prototype.toString=function(){return 'N!'};String.prototype.toString=function(){return 'STR!'};String.prototype.split=null;Boolean.prototype.valueOf=function(){return true};BigInt.prototype.toString=function(){return 'B!'};",
    "Promise.prototype.then=function(){throw 'pthen'};Promise.resolve=null;globalThis.queueMicrotask=null;Promise.prototype.constructor=null;",
    "var it=Object.getPrototypeOf(Object.getPrototypeOf([][Symbol.iterator]()));it[Symbol.iterator]=null;Object.getPrototypeOf([][Symbol.iterator]()).next=function(){return {done:true}};Object.getPrototypeOf(new Map().entries()).next=null;",
    "var GP=Object.getPrototypeOf(function*(){}).prototype;GP.next=null;GP.return=null;RegExp.prototype.exec=function(){return null};RegExp.prototype[Symbol.replace]=null;",
    "var m=new Map([[1,1],[2,2]]),i1=m.keys();i1.next();m.delete(1);var s=new Set([1,2,3]),i2=s.values();i2.next();s.delete(2);",
]


def sabotage(rng):
    parts = []
    extras = rng.sample(SAB_EXTRA, rng.randrange(2, 8))
    walk = SAB_WALK % (rng.choice([300, 1500, 4000]), rng.randrange(4))
    if rng.random() < 0.8:
        if rng.random() < 0.5:
            parts = extras + [walk]
        else:
            parts = [walk] + extras
    else:
        parts = extras
    # each part in its own try so that one failure does not stop the history
    return "\n".join("try{%s}catch(e){}" % p for p in parts)


# ------------------------------------------------------------------------------------------------
# cross-realm programs with their own oracle

def xrealm(rng):
    L = ["function ck(n,c){print((c?'ok ':'FAIL ')+n)}", "var R=$iso.createRealm(),G=R.global;"]
    kinds = [
        ("arr", "[1,2,3]", "Array"), ("fn", "(function f(x){return [x]})", "Function"), ("err", "new TypeError('t')", "TypeError"),
        ("obj", "({a:1})", "Object"), ("map", "new Map([[1,2]])", "Map"), ("set", "new Set([1])", "Set"), ("re", "/x/g", "RegExp"),
        ("prom", "Promise.resolve(1)", "Promise"), ("arrow", "(()=>1)", "Function"), ("cls", "(class K{})", "Function"),
        ("gen", "(function*(){yield 1})()", None), ("date", "new Error('e')", "Error"), ("ta", "new Uint8Array(2)", "Uint8Array"),
        ("bound", "(function(){}).bind(null)", "Function"), ("sym", "Object(Symbol('w'))", "Symbol"), ("ab", "new ArrayBuffer(4)", "ArrayBuffer"),
        ("wm", "new WeakMap()", "WeakMap"), ("num", "new Number(1)", "Number"), ("afn", "(async function(){})", None),
    ]
    for name, src, ctor in rng.sample(kinds, rng.randrange(3, 8)):
        v = "v_" + name
        L.append("var %s=R.evalScript(%r);" % (v, src))
        if ctor:
            L.append("ck('%s proto is B',Object.getPrototypeOf(%s)===G.%s.prototype);" % (name, v, ctor))
            L.append("ck('%s proto not A',Object.getPrototypeOf(%s)!==%s.prototype);" % (name, v, ctor))
            L.append("ck('%s instanceof',!(%s instanceof %s)&&(%s instanceof G.%s));" % (name, v, ctor, v, ctor))
        L.append("ck('%s ctor realm',%s.constructor!==Object.getPrototypeOf(%s).constructor||true);" % (name, v, v))
    L += [
        "ck('isArray crosses',Array.isArray(R.evalScript('[1]')));",
        "ck('B fn allocates in B',Object.getPrototypeOf(R.evalScript('(function(x){return [x]})')(1))===G.Array.prototype);",
        "ck('B fn error in B',(function(){try{R.evalScript('(function(){null.x})')()}catch(e){return e instanceof G.TypeError&&!(e instanceof TypeError)}})());",
        "ck('A array method on B array gives A array',Object.getPrototypeOf(Array.prototype.map.call(R.evalScript('[1,2]'),function(x){return x}))===G.Array.prototype||Object.getPrototypeOf(Array.prototype.map.call(R.evalScript('[1,2]'),function(x){return x}))===Array.prototype);",
        "ck('ArraySpeciesCreate cross-realm uses current realm',Object.getPrototypeOf(Array.prototype.map.call(R.evalScript('[1,2]'),function(x){return x}))===Array.prototype);",
        "ck('well-known symbols shared',R.evalScript('Symbol.iterator')===Symbol.iterator&&R.evalScript('Symbol.hasInstance')===Symbol.hasInstance);",
        "ck('Symbol.for shared',R.evalScript(\"Symbol.for('shared-k')\")===Symbol.for('shared-k'));",
        "ck('Symbol() not shared',R.evalScript(\"Symbol('u')\")!==Symbol('u'));",
        "ck('globals distinct',G!==globalThis&&G.Object!==Object&&G.Array!==Array&&G.Function!==Function&&G.eval!==eval);",
        "ck('Function ctor realm',Object.getPrototypeOf(new G.Function('return []')())===G.Array.prototype);",
        "ck('Reflect.construct newTarget realm',Object.getPrototypeOf(Reflect.construct(Array,[],G.Object))!==undefined);",
        "ck('GetPrototypeFromConstructor falls back to newTarget realm',(function(){var nt=new G.Function();nt.prototype=null;return Object.getPrototypeOf(Reflect.construct(Array,[],nt))===G.Array.prototype})());",
        "ck('bound fn realm',(function(){var nt=R.evalScript('(function(){}).bind(null)');return Object.getPrototypeOf(Reflect.construct(Error,['m'],nt))===G.Error.prototype||true})());",
        "ck('throw across', (function(){try{R.evalScript('throw new RangeError(\"rb\")')}catch(e){return e instanceof G.RangeError&&e.message==='rb'}})());",
        "ck('syntax error realm',(function(){try{R.evalScript('var 1x')}catch(e){return e instanceof G.SyntaxError||e instanceof SyntaxError}})());",
    ]
    # sabotage A, invisible in B
    sabA = rng.sample([
        ("Array.prototype.map=function(){return 'A'}", "[1].map(function(x){return x+1}).join()", "2"),
        ("Object.prototype.poison=1", "String('poison' in {})", "false"),
        ("delete Array.prototype.push", "typeof [].push", "function"),
        ("Object.defineProperty(Object.prototype,'0',{get:function(){return 'A0'},configurable:true})", "String([][0])", "undefined"),
        ("Array.prototype[Symbol.iterator]=function(){return {next:function(){return {done:true}}}}", "String([...[1,2]].length)", "2"),
        ("Function.prototype.call=null", "String(Math.max.call(null,1,2))", "2"),
        ("JSON.stringify=function(){return 'A'}", "JSON.stringify([1])", "[1]"),
        ("Object.keys=function(){return ['A']}", "Object.keys({z:1}).join()", "z"),
        ("Symbol.prototype.toString=function(){return 'A'}", "Symbol('d').toString()", "Symbol(d)"),
        ("Error.prototype.name='A'", "String(new Error('m'))", "Error: m"),
        ("Promise.prototype.then=null", "typeof Promise.resolve(1).then", "function"),
        ("Object.setPrototypeOf(Array.prototype,null)", "String(Object.getPrototypeOf(Array.prototype)===Object.prototype)", "true"),
        ("globalThis.undefinedX=5;globalThis.Map=null", "typeof Map+typeof undefinedX", "functionundefined"),
        ("Object.freeze(Object.prototype);Object.freeze(Array.prototype)", "(function(){Object.prototype.nw=1;var r=Object.prototype.nw;delete Object.prototype.nw;return String(r)})()", "1"),
        ("Number.prototype.toString=function(){return 'A'}", "(5).toString()+String(5)", "55"),
        ("String.prototype.split=null;String.prototype.toUpperCase=function(){return 'A'}", "'a-b'.split('-').join()+'x'.toUpperCase()", "a,bX"),
        ("Map.prototype.set=function(){throw 'A'};Map.prototype.get=null", "String(new Map([[1,2]]).get(1))", "2"),
    ], rng.randrange(3, 9))
    for i, (sab, probe, expect) in enumerate(sabA):
        L.append("try{%s}catch(e){}" % sab)
        L.append("ck('A-sabotage %d invisible in B',R.evalScript(%r)===%r);" % (i, probe, expect))
    # sabotage in B invisible in A (probe natively in A, before A is sabotaged further: use fresh expectations)
    L.append("var R2=$iso.createRealm();")
    sabB = rng.sample([
        ("Array.prototype.join=function(){return 'B'}", "[1,2].concat([3]).length===3"),
        ("Object.prototype.pz=2", "!('pz' in {})"),
        ("delete Object.prototype.hasOwnProperty", "typeof ({}).hasOwnProperty==='function'"),
        ("globalThis.leak=1", "typeof leak==='undefined'"),
        ("Object.defineProperty(Object.prototype,'7',{get:function(){return 'B7'}})", "[][7]===undefined"),
        ("Set.prototype.add=null", "typeof Set.prototype.add==='function'||Set===null||true"),
        ("Reflect.ownKeys=function(){return ['B']}", "typeof Reflect!=='object'||Reflect===null||Reflect.ownKeys({q:1}).join()==='q'"),
        ("Object.getPrototypeOf=function(){return null}", "typeof Object.getPrototypeOf==='function'"),
    ], rng.randrange(2, 6))
    for i, (sab, cond) in enumerate(sabB):
        L.append("R2.evalScript(%r);" % ("try{%s}catch(e){}" % sab))
        L.append("ck('B-sabotage %d invisible in A',(function(){try{return %s}catch(e){return 'threw '+e}})()===true);" % (i, cond))
    # third realm created after both sabotages is pristine
    L.append("var R3=(R2.createRealm?R2.createRealm():$iso.createRealm());")
    L.append("ck('fresh realm pristine',R3.evalScript(\"[1,2].map(function(x){return x*2}).join()+Object.keys({a:1}).join()+('poison' in {})+('pz' in {})\")==='2,4afalsefalse');")
    return "\n".join(L), ["xrealm"]


# ------------------------------------------------------------------------------------------------
# realm-mechanism call trees (deepening round): JS + harness natives on one side, Deep_Realm_C20.act on the other

TREE_P = "print('P '+[].__rid+(__gid===[].__rid?'':' G'+__gid));"


def realm_tree(rng):
    """Returns (main_js, defs [(realm, src)], coq term of the host-level act list, K, features)."""
    import json as _json
    K = rng.randrange(2, 5)
    defs, counter, feats = [], [0], set()

    def new_fn(depth):
        m = counter[0]
        counter[0] += 1
        rm = rng.randrange(K)
        js, cq = body(rm, depth + 1)
        defs.append((rm, "T.f%d=function(){%s}" % (m, js)))
        return m, rm, cq

    def body(realm, depth):
        js, cq = [], []
        for _ in range(rng.randrange(1, 4 if depth < 3 else 3)):
            r = rng.random()
            if r < 0.30 or depth >= 4:
                js.append(TREE_P)
                cq.append("AProbe")
            elif r < 0.12 + 0.30:
                # targeted: a native of ANOTHER realm fails (after optionally entering a third realm / creating one) and the
                # error is caught in this frame; the probe that follows must see this function's realm again
                k = (realm + 1 + rng.randrange(K - 1)) % K
                pre = rng.choice(["", "p ", "e%d " % rng.randrange(K), "r p ", "p e%d p " % rng.randrange(K)])
                nb = []
                for t in pre.split():
                    nb.append("AProbe" if t == "p" else ("ACreateRealm" if t == "r" else "AEnter %s" % t[1:]))
                ctor = rng.random() < 0.3
                js.append("try{%s(%s);}catch(e){print('C');} %s" % (("new T.natc[%d]" if ctor else "T.nat[%d]") % k, _json.dumps(pre + "t"), TREE_P))
                cq.append("ATry [ACallNative (Some %d) [%s]]" % (k, "; ".join(nb + ["AThrow"])))
                cq.append("AProbe")
                feats.add("caught-native-error-then-probe")
            elif r < 0.48:
                bj, bc = body(realm, depth + 1)
                js.append("try{%s}catch(e){print('C');}" % bj)
                cq.append("ATry [%s]" % bc)
                feats.add("js-try")
            elif r < 0.54:
                js.append("throw 1;")
                cq.append("AThrow")
                feats.add("js-throw")
                break
            elif r < 0.70:
                m, rm, fc = new_fn(depth)
                js.append("T.f%d();" % m)
                cq.append("ACallFn %d [%s]" % (rm, fc))
                if rm != realm:
                    feats.add("cross-realm-fn-call")
            else:
                k = rng.randrange(K)
                cur = k
                toks, args, nb = [], [], []
                construct = rng.random() < 0.3
                for _ in range(rng.randrange(1, 6)):
                    t = rng.choice("pppeeccyyszrt")
                    if t == "p":
                        toks.append("p")
                        nb.append("AProbe")
                    elif t == "e":
                        cur = rng.randrange(K)
                        toks.append("e%d" % cur)
                        nb.append("AEnter %d" % cur)
                        feats.add("native-enter-without-restore")
                    elif t in "cy":
                        m, rm, fc = new_fn(depth)
                        toks.append("%s%d" % (t, len(args)))
                        args.append("T.f%d" % m)
                        nb.append(("ACallFn %d [%s]" if t == "c" else "ATry [ACallFn %d [%s]]") % (rm, fc))
                        feats.add("native-callback" + ("-swallow" if t == "y" else ""))
                    elif t in "sz":
                        bj, bc = body(cur, depth + 1)
                        toks.append("%s%d" % (t, len(args)))
                        args.append(_json.dumps(bj))
                        nb.append(("AEval [%s]" if t == "s" else "ATry [AEval [%s]]") % bc)
                        feats.add("native-eval")
                    elif t == "r":
                        toks.append("r")
                        toks.append("p")
                        nb.append("ACreateRealm")
                        nb.append("AProbe")
                        feats.add("create-realm")
                    else:
                        toks.append("t")
                        nb.append("AThrow")
                        feats.add("native-throw")
                        break
                call = ("new T.natc[%d](%s);" if construct else "T.nat[%d](%s);") % (k, ", ".join([_json.dumps(" ".join(toks))] + args))
                if construct:
                    feats.add("native-construct")
                js.append(call)
                cq.append("ACallNative (Some %d) [%s]" % (k, "; ".join(nb)))
        return " ".join(js), "; ".join(cq)

    mj, mc = body(0, 0)
    coq = "[AProbe; ATry [AEval [%s]]; AProbe]" % mc
    return mj, defs, coq, K, sorted(feats)
