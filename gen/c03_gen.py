"""Program generator for C03 (and reusable by C08): JavaScript *text* aimed at the bytecompiler's lowering paths.

Bias (DESIGN.md 4/C03): assignment targets (local / captured / global var / global let / undeclared / with-scoped /
member / computed / private / super / destructuring) x operators (= op= &&= ||= ??= ++ --) x short-circuit x
try/catch/finally x break/continue/return out of scopes and finally blocks x generators / async x with / eval x
destructuring x classes.  Every loop has a syntactic bound, so programs terminate when run (the harness additionally
sets a loop-iteration limit).  All randomness comes from the `random.Random` passed in.

gen_program(rng, size) -> (text, features: set of str)
gen_malformed(rng) -> text       (token-level mutants: most are SyntaxErrors, some compile to odd shapes)
"""
import random

GLOBAL_VARS = ["gv0", "gv1", "gv2"]
GLOBAL_LETS = ["gl0", "gl1"]
UNDECL = ["ud0", "ud1"]
PROPS = ["p", "q", "r", "length", "x"]


class Ctx:
    def __init__(self, rng, budget):
        self.rng = rng
        self.budget = budget
        self.feats = set()
        self.uid = 0
        self.locals = []          # stack of lists of names (let/const/var/params) visible
        self.consts = set()
        self.fn = None            # None (script) | 'fn' | 'gen' | 'async' | 'agen' | 'arrow' | 'method' | 'ctor' | 'dctor'
        self.loops = 0            # enclosing loops (break/continue legal)
        self.breakables = 0       # enclosing loops or switches
        self.labels = []          # (name, is_loop)
        self.in_class = False     # private names / super property usable
        self.privs = []
        self.has_super = False
        self.in_with = 0
        self.depth = 0

    def fresh(self, p="v"):
        self.uid += 1
        return "%s%d" % (p, self.uid)

    def f(self, name):
        self.feats.add(name)

    def take(self, n=1):
        self.budget -= n
        return self.budget > 0

    def names(self):
        out = []
        for sc in self.locals:
            out += sc
        return out


def pick(rng, weighted):
    tot = sum(w for w, _ in weighted)
    x = rng.random() * tot
    for w, v in weighted:
        x -= w
        if x < 0:
            return v
    return weighted[-1][1]


# --------------------------------------------------------------------------------------------- expressions

def lit(c):
    r = c.rng
    return pick(r, [(4, lambda: str(r.choice([0, 1, 2, 3, 7, 100, 127, 128, 255, 32767, 32768, 65536, 2147483647, -1, -129]))),
                    (1, lambda: r.choice(["1.5", "0.1", "1e21", "NaN", "Infinity", "-0"])),
                    (2, lambda: r.choice(["'a'", "'b'", '""', "'x1'", "`t`"])),
                    (1, lambda: r.choice(["true", "false", "null", "undefined"])),
                    (0.5, lambda: r.choice(["10n", "0n"])),
                    (0.3, lambda: r.choice(["/a+/g", "/x/"])),
                    (1, lambda: "[]"), (1, lambda: "{}")])()


def ident_read(c):
    r = c.rng
    ns = c.names()
    opts = [(3, lambda: r.choice(GLOBAL_VARS)), (2, lambda: r.choice(GLOBAL_LETS)), (0.5, lambda: r.choice(UNDECL)),
            (1, lambda: r.choice(["obj", "arr", "fnG", "print"]))]
    if ns:
        opts.append((6, lambda: r.choice(ns)))
    return pick(r, opts)()


def assign_target(c, allow_pattern=True):
    """returns (text, kind)"""
    r = c.rng
    ns = [n for n in c.names() if n not in c.consts]
    opts = [(3, lambda: (r.choice(GLOBAL_VARS), "gvar")), (2, lambda: (r.choice(GLOBAL_LETS), "glet")),
            (1, lambda: (r.choice(UNDECL), "undecl")),
            (2, lambda: ("obj." + r.choice(PROPS), "member")),
            (1.5, lambda: ("obj[" + expr(c, 1) + "]", "computed")),
            (1, lambda: ("arr[" + str(r.randrange(4)) + "]", "index"))]
    if ns:
        opts.append((5, lambda: (r.choice(ns), "local")))
    if c.consts and r.random() < 0.15:
        opts.append((1, lambda: (r.choice(sorted(c.consts)), "const")))
    if c.in_class and c.privs and c.fn in ("method", "ctor", "dctor"):
        opts.append((2, lambda: ("this.#" + r.choice(c.privs), "private")))
    if c.has_super and c.fn in ("method", "dctor"):
        opts.append((1.5, lambda: ("super." + r.choice(PROPS), "superprop")))
        opts.append((0.7, lambda: ("super[" + expr(c, 1) + "]", "supercomputed")))
    if c.fn in ("method", "ctor", "fn") and r.random() < 0.3:
        opts.append((1, lambda: ("this." + r.choice(PROPS), "thismember")))
    t, k = pick(r, opts)()
    c.f("target:" + k)
    return t, k


def pattern(c, depth=0):
    r = c.rng
    c.f("destructuring")
    def leaf():
        t, _ = assign_target(c, False)
        if r.random() < 0.3:
            t += " = " + expr(c, 1)
        return t
    if r.random() < 0.5:
        items = []
        for _ in range(r.randrange(1, 4)):
            x = r.random()
            if x < 0.15:
                items.append("")
            elif x < 0.3 and depth < 2:
                items.append(pattern(c, depth + 1))
            else:
                items.append(leaf())
        if r.random() < 0.25:
            items.append("..." + assign_target(c, False)[0])
        c.f("pattern:array")
        return "[" + ", ".join(items) + "]"
    items = []
    for _ in range(r.randrange(1, 4)):
        x = r.random()
        k = r.choice(PROPS)
        if x < 0.2:
            items.append("[" + expr(c, 1) + "]: " + leaf())
        elif x < 0.35 and depth < 2:
            items.append(k + ": " + pattern(c, depth + 1))
        else:
            items.append(k + ": " + leaf())
    if r.random() < 0.25:
        items.append("..." + assign_target(c, False)[0])
    c.f("pattern:object")
    return "{" + ", ".join(items) + "}"


BINOPS = ["+", "-", "*", "/", "%", "**", "&", "|", "^", "<<", ">>", ">>>", "<", "<=", ">", ">=", "==", "!=", "===", "!==", "in", "instanceof"]
ASSIGNOPS = ["=", "=", "=", "+=", "-=", "*=", "/=", "%=", "**=", "&=", "|=", "^=", "<<=", ">>=", ">>>=", "&&=", "||=", "??=", "&&=", "||=", "??="]


def args(c, d):
    r = c.rng
    n = r.choice([0, 1, 1, 2, 3])
    out = []
    for _ in range(n):
        if r.random() < 0.15:
            c.f("spread-arg")
            out.append("..." + r.choice(["arr", "[1,2]", "obj.q || []"]))
        else:
            out.append(expr(c, d - 1))
    return ", ".join(out)


def callee(c, d):
    r = c.rng
    return pick(r, [(3, lambda: "fnG"), (2, lambda: "obj.m"), (1, lambda: "obj[" + expr(c, 1) + "]"), (1, lambda: r.choice(UNDECL)),
                    (1, lambda: "thrower"), (1, lambda: "(" + function_expr(c) + ")"), (1, lambda: "obj?.m"), (0.5, lambda: "print"),
                    (0.7, lambda: ident_read(c))])()


def expr(c, d=3):
    r = c.rng
    if d <= 0 or not c.take():
        return pick(r, [(2, lambda: lit(c)), (3, lambda: ident_read(c))])()
    c.depth += 1
    try:
        return _expr(c, d)
    finally:
        c.depth -= 1


def _expr(c, d):
    r = c.rng
    opts = [
        (3, lambda: lit(c)),
        (4, lambda: ident_read(c)),
        (4, lambda: "(" + expr(c, d - 1) + " " + r.choice(BINOPS) + " " + expr(c, d - 1) + ")"),
        (3, lambda: e_assign(c, d)),
        (2, lambda: e_update(c)),
        (3, lambda: e_logical(c, d)),
        (1.5, lambda: "(" + expr(c, d - 1) + " ? " + expr(c, d - 1) + " : " + expr(c, d - 1) + ")"),
        (3, lambda: e_call(c, d)),
        (1, lambda: e_new(c, d)),
        (2, lambda: e_member(c, d)),
        (1, lambda: r.choice(["-", "+", "!", "~", "typeof ", "void "]) + "(" + expr(c, d - 1) + ")"),
        (0.7, lambda: "typeof " + r.choice(UNDECL + GLOBAL_VARS)),
        (0.8, lambda: e_delete(c, d)),
        (1, lambda: "(" + expr(c, d - 1) + ", " + expr(c, d - 1) + ")"),
        (1.5, lambda: e_array(c, d)),
        (1.5, lambda: e_object(c, d)),
        (1, lambda: e_template(c, d)),
        (1, lambda: "(" + function_expr(c) + ")"),
        (0.4, lambda: class_expr(c)),
        (0.7, lambda: e_eval(c, d)),
        (0.5, lambda: "this"),
    ]
    if c.fn in ("gen", "agen"):
        opts.append((2, lambda: e_yield(c, d)))
    if c.fn in ("async", "agen"):
        opts.append((2, lambda: (c.f("await"), "(await " + expr(c, d - 1) + ")")[1]))
    if c.fn in ("fn", "ctor", "dctor", "method", "gen"):
        opts.append((0.3, lambda: (c.f("new.target"), "new.target")[1]))
        opts.append((0.4, lambda: (c.f("arguments"), "arguments[" + str(r.randrange(3)) + "]")[1]))
    if c.in_class and c.privs and c.fn in ("method", "ctor", "dctor"):
        opts.append((1, lambda: (c.f("private-get"), "this.#" + r.choice(c.privs))[1]))
        opts.append((0.5, lambda: (c.f("private-in"), "(#" + r.choice(c.privs) + " in obj)")[1]))
    if c.has_super and c.fn in ("method", "dctor"):
        opts.append((1, lambda: (c.f("super-get"), "super." + r.choice(PROPS))[1]))
        opts.append((0.7, lambda: (c.f("super-call-method"), "super.m(" + args(c, d) + ")")[1]))
    return pick(r, opts)()


def e_assign(c, d):
    r = c.rng
    op = r.choice(ASSIGNOPS)
    if op == "=" and r.random() < 0.3:
        c.f("assign:pattern")
        return "(" + pattern(c) + " = " + r.choice(["arr", "obj", "[1,2,3]", "{p:1,q:{p:2}}", "iterG()", expr(c, d - 1)]) + ")"
    t, k = assign_target(c)
    c.f("assign:" + op)
    if op in ("&&=", "||=", "??="):
        c.f("shortcircuit-assign:" + k)
    return "(" + t + " " + op + " " + expr(c, d - 1) + ")"


def e_update(c):
    r = c.rng
    t, k = assign_target(c)
    c.f("update:" + k)
    op = r.choice(["++", "--"])
    return "(" + (op + t if r.random() < 0.5 else t + op) + ")"


def e_logical(c, d):
    r = c.rng
    op = r.choice(["&&", "||", "??"])
    c.f("logical:" + op)
    return "(" + expr(c, d - 1) + " " + op + " " + expr(c, d - 1) + ")"


def e_call(c, d):
    r = c.rng
    c.f("call")
    f = callee(c, d)
    if r.random() < 0.12:
        c.f("optional-call")
        return f + "?.(" + args(c, d) + ")"
    if r.random() < 0.06:
        c.f("tagged-template")
        return "fnG`a${" + expr(c, d - 1) + "}b`"
    return f + "(" + args(c, d) + ")"


def e_new(c, d):
    r = c.rng
    c.f("new")
    k = r.choice(["Ctor", "Ctor", "obj.C", "Object", "fnG", "Derived"])
    return "new " + k + "(" + args(c, d) + ")"


def e_member(c, d):
    r = c.rng
    o = r.choice(["obj", "arr", "(" + expr(c, d - 1) + ")", "obj.q", "'str'"])
    x = r.random()
    if x < 0.4:
        return o + "." + r.choice(PROPS)
    if x < 0.6:
        c.f("optional-chain")
        return o + "?." + r.choice(PROPS) + (("?.[" + expr(c, 1) + "]") if r.random() < 0.3 else "")
    return o + "[" + expr(c, d - 1) + "]"


def e_delete(c, d):
    r = c.rng
    c.f("delete")
    return "delete " + r.choice(["obj." + r.choice(PROPS), "obj[" + expr(c, 1) + "]", r.choice(UNDECL), r.choice(GLOBAL_VARS), "arr[0]"])


def e_array(c, d):
    r = c.rng
    items = []
    for _ in range(r.randrange(0, 4)):
        x = r.random()
        if x < 0.12:
            items.append("")
            c.f("array-hole")
        elif x < 0.3:
            items.append("..." + r.choice(["arr", "'ab'", "iterG()"]))
            c.f("array-spread")
        else:
            items.append(expr(c, d - 1))
    return "[" + ", ".join(items) + "]"


def e_object(c, d):
    r = c.rng
    items = []
    for _ in range(r.randrange(0, 4)):
        k = r.choice(PROPS)
        x = r.random()
        if x < 0.35:
            items.append(k + ": " + expr(c, d - 1))
        elif x < 0.45:
            items.append("[" + expr(c, 1) + "]: " + expr(c, d - 1))
            c.f("obj-computed")
        elif x < 0.55:
            items.append("..." + r.choice(["obj", "arr", "null"]))
            c.f("obj-spread")
        elif x < 0.65:
            items.append("get " + k + "() { " + body(c.sub("method"), 2) + " }")
            c.f("obj-getter")
        elif x < 0.72:
            items.append("set " + k + "(v) { " + body(c.sub("method", ["v"]), 2) + " }")
            c.f("obj-setter")
        elif x < 0.8:
            items.append("get [" + expr(c, 1) + "]() { return 1 }")
            c.f("obj-getter-computed")
        elif x < 0.9:
            kind = r.choice(["", "*", "async ", "async *"])
            sub = c.sub({"": "method", "*": "gen", "async ": "async", "async *": "agen"}[kind], ["a"])
            items.append(kind + k + "(a) { " + body(sub, 2) + " }")
            c.f("obj-method" + kind.strip())
        elif x < 0.95:
            items.append("__proto__: " + r.choice(["obj", "null"]))
            c.f("obj-proto")
        else:
            items.append(ident_read(c) if r.random() < 0.5 else "gv0")
    return "({" + ", ".join(items) + "})"


def e_template(c, d):
    c.f("template")
    return "`a${" + expr(c, d - 1) + "}b${" + expr(c, d - 1) + "}`"


def e_eval(c, d):
    r = c.rng
    c.f("eval")
    inner = r.choice(["1", "gv0", "var ev = 1; ev", "gv1 = 2", "ud0", "let z = 1; z", "(function(){ return 1 })()"] + (c.names()[:2]))
    if r.random() < 0.2:
        c.f("eval-spread")
        return "eval(...['" + inner + "'])"
    if r.random() < 0.15:
        c.f("eval-indirect")
        return "(0, eval)('" + inner + "')"
    return "eval('" + inner + "')"


def e_yield(c, d):
    r = c.rng
    if r.random() < 0.3:
        c.f("yield*")
        return "(yield* " + r.choice(["arr", "iterG()", "[1,2]"]) + ")"
    c.f("yield")
    return "(yield " + expr(c, d - 1) + ")"


# --------------------------------------------------------------------------------------------- functions / classes

def sub_ctx(c, kind, params=()):
    s = Ctx(c.rng, 0)
    s.__dict__.update({k: v for k, v in c.__dict__.items()})
    s.locals = [list(x) for x in c.locals] + [list(params)]
    s.consts = set(c.consts)
    s.fn = kind
    s.loops = 0
    s.breakables = 0
    s.labels = []
    s.parent = c
    return s


def _sub(self, kind, params=()):
    return sub_ctx(self, kind, params)


Ctx.sub = _sub


def sync_budget(c, s):
    c.budget = s.budget
    c.uid = s.uid


def params(c):
    """returns (text, names)"""
    r = c.rng
    names, parts = [], []
    for _ in range(r.choice([0, 1, 1, 2, 3])):
        n = c.fresh("a")
        x = r.random()
        if x < 0.2:
            parts.append(n + " = " + lit(c))
            c.f("param-default")
            names.append(n)
        elif x < 0.3:
            m = c.fresh("a")
            parts.append("{p: " + n + ", q: " + m + " = 2}")
            c.f("param-pattern")
            names += [n, m]
        elif x < 0.38:
            m = c.fresh("a")
            parts.append("[" + n + ", ..." + m + "]")
            c.f("param-pattern")
            names += [n, m]
        elif x < 0.45 and names:
            parts.append(n + " = () => " + names[0])
            c.f("param-default-closure")
            names.append(n)
        else:
            parts.append(n)
            names.append(n)
    if r.random() < 0.2:
        n = c.fresh("a")
        parts.append("..." + n)
        c.f("param-rest")
        names.append(n)
    return ", ".join(parts), names


def function_expr(c):
    r = c.rng
    kind = pick(r, [(4, "fn"), (3, "arrow"), (1.5, "gen"), (1.5, "async"), (0.8, "agen"), (0.8, "asyncarrow")])
    ptext, pnames = params(c)
    c.f("function:" + kind)
    if kind in ("arrow", "asyncarrow"):
        s = c.sub("async" if kind == "asyncarrow" else c.fn if c.fn in (None,) else "arrow", pnames)
        # arrows keep yield/await illegal unless async arrow; treat body as plain
        s.fn = "async" if kind == "asyncarrow" else "arrow"
        if not c.in_class:
            s.has_super = False
        pre = "async " if kind == "asyncarrow" else ""
        if r.random() < 0.5:
            t = pre + "(" + ptext + ") => (" + expr(s, 2) + ")"
        else:
            t = pre + "(" + ptext + ") => { " + body(s, r.randrange(1, 4)) + " }"
        sync_budget(c, s)
        return t
    s = c.sub(kind, pnames)
    s.in_class = False
    s.has_super = False
    s.privs = []
    name = c.fresh("fe") if r.random() < 0.4 else ""
    if name:
        c.f("named-function-expression")
        s.locals[-1].append(name)
    head = {"fn": "function", "gen": "function*", "async": "async function", "agen": "async function*"}[kind]
    strict = '"use strict"; ' if r.random() < 0.15 else ""
    t = head + " " + name + "(" + ptext + ") { " + strict + body(s, r.randrange(1, 5)) + " }"
    sync_budget(c, s)
    return t


def class_body(c, derived):
    r = c.rng
    privs = [c.fresh("pf")] if r.random() < 0.7 else []
    if privs and r.random() < 0.5:
        privs.append(c.fresh("pf"))
    members = []
    pm = []   # private methods / accessors names
    def sub(kind, ps=()):
        s = c.sub(kind, ps)
        s.in_class = True
        s.privs = privs
        s.has_super = derived
        return s
    for p in privs:
        st = "static " if r.random() < 0.2 else ""
        if st:
            c.f("class-static-private-field")
        members.append(st + "#" + p + (" = " + expr(sub("method"), 2) if r.random() < 0.7 else "") + ";")
        c.f("class-private-field")
    if r.random() < 0.6:
        s = sub("dctor" if derived else "ctor", ["a"])
        sup = ""
        if derived:
            sup = pick(r, [(5, "super(a);"), (1, "super(...arr);"), (1, "if (a) { super(a) } else { super() }"),
                           (0.7, "try { super(a) } finally { gv0 = 1 }"), (0.5, "(() => super(a))();")])
            c.f("super-call")
        members.append("constructor(a) { " + sup + " " + body(s, r.randrange(0, 3)) + " }")
        sync_budget(c, s)
    for _ in range(r.randrange(0, 5)):
        x = r.random()
        st = "static " if r.random() < 0.25 else ""
        k = r.choice(PROPS + ["m", "m"])
        if x < 0.3:
            kind = r.choice(["", "", "*", "async ", "async *"])
            s = sub({"": "method", "*": "gen", "async ": "async", "async *": "agen"}[kind], ["a"])
            key = k if r.random() < 0.8 else "[" + expr(c, 1) + "]"
            members.append(st + kind + key + "(a) { " + body(s, r.randrange(1, 4)) + " }")
            sync_budget(c, s)
            c.f("class-method" + kind.strip() + ("-static" if st else ""))
        elif x < 0.42:
            s = sub("method")
            key = k if r.random() < 0.8 else "[" + expr(c, 1) + "]"
            members.append(st + "get " + key + "() { " + body(s, 2) + " }")
            sync_budget(c, s)
            c.f("class-getter" + ("-static" if st else ""))
        elif x < 0.52:
            s = sub("method", ["v"])
            key = k if r.random() < 0.8 else "[" + expr(c, 1) + "]"
            members.append(st + "set " + key + "(v) { " + body(s, 2) + " }")
            sync_budget(c, s)
            c.f("class-setter" + ("-static" if st else ""))
        elif x < 0.68:
            s = sub("method")
            key = k if r.random() < 0.7 else "[" + expr(c, 1) + "]"
            members.append(st + key + (" = " + expr(s, 2) if r.random() < 0.8 else "") + ";")
            sync_budget(c, s)
            c.f("class-field" + ("-static" if st else ""))
        elif x < 0.8:
            n = c.fresh("pm")
            s = sub("method", ["a"])
            s.privs = privs
            members.append(st + "#" + n + "(a) { " + body(s, 2) + " }")
            sync_budget(c, s)
            pm.append(n)
            c.f("class-private-method" + ("-static" if st else ""))
        elif x < 0.9:
            n = c.fresh("pa")
            s = sub("method")
            members.append(st + "get #" + n + "() { return 1 }")
            if r.random() < 0.6:
                members.append(st + "set #" + n + "(v) { " + body(sub("method", ["v"]), 1) + " }")
            pm.append(n)
            c.f("class-private-accessor" + ("-static" if st else ""))
        else:
            s = sub("method")
            members.append("static { " + body(s, r.randrange(1, 3)) + " }")
            sync_budget(c, s)
            c.f("class-static-block")
    return " ".join(members)


def class_expr(c, name=None):
    r = c.rng
    derived = r.random() < 0.45
    c.f("class" + ("-derived" if derived else ""))
    ext = ""
    if derived:
        ext = " extends " + r.choice(["Ctor", "Base", "Object", "(obj.C || Ctor)", "null"])
    nm = name or (c.fresh("Cl") if r.random() < 0.5 else "")
    t = "class " + nm + ext + " { " + class_body(c, derived) + " }"
    return t if name else "(" + t + ")"


# --------------------------------------------------------------------------------------------- statements

def body(c, n):
    c.locals.append([])
    try:
        out = []
        for _ in range(n):
            if not c.take():
                break
            out.append(stmt(c))
        if c.fn is not None and c.rng.random() < 0.5:
            out.append("return " + expr(c, 2) + ";")
        return " ".join(out)
    finally:
        c.locals.pop()


def block(c, n=None):
    r = c.rng
    n = n if n is not None else r.randrange(1, 4)
    c.locals.append([])
    try:
        out = []
        for _ in range(n):
            if not c.take():
                break
            out.append(stmt(c))
        return "{ " + " ".join(out) + " }"
    finally:
        c.locals.pop()


def decl(c):
    r = c.rng
    kind = pick(r, [(3, "let"), (2, "const"), (2, "var")])
    x = r.random()
    if x < 0.2:
        a, b = c.fresh(), c.fresh()
        c.f("decl-pattern:" + kind)
        init = r.choice(["arr", "[1,2,3]", "iterG()", "'ab'"])
        t = kind + " [" + a + ", " + b + (" = " + expr(c, 1) if r.random() < 0.3 else "") + "] = " + init + ";"
        new = [a, b]
    elif x < 0.35:
        a, b = c.fresh(), c.fresh()
        c.f("decl-pattern:" + kind)
        t = kind + " {p: " + a + ", ..." + b + "} = " + r.choice(["obj", "{p:1,q:2}", expr(c, 1)]) + ";"
        new = [a, b]
    else:
        a = c.fresh()
        if kind == "const" or r.random() < 0.8:
            t = kind + " " + a + " = " + expr(c, 3) + ";"
        else:
            t = kind + " " + a + ";"
        new = [a]
    c.locals[-1] += new
    if kind == "const":
        c.consts |= set(new)
    c.f("decl:" + kind)
    return t


def closure_capture(c):
    """a let captured by a closure inside a block/loop: forces a declarative environment (PushScope)"""
    a = c.fresh()
    c.locals[-1].append(a)
    c.f("captured-let")
    return "let " + a + " = " + expr(c, 1) + "; fns.push(() => " + a + "++);"


def jump_stmt(c):
    r = c.rng
    opts = []
    if c.loops:
        opts += [(3, "continue;"), (1, "if (" + expr(c, 1) + ") continue;")]
    if c.breakables:
        opts += [(3, "break;"), (1, "if (" + expr(c, 1) + ") break;")]
    for (l, is_loop) in c.labels:
        opts.append((2, "break " + l + ";"))
        if is_loop:
            opts.append((2, "continue " + l + ";"))
    if c.fn is not None:
        opts += [(2, "return " + expr(c, 2) + ";"), (1, "return;")]
    opts.append((1.5, "throw " + r.choice(["1", "new Error('e')", expr(c, 1)]) + ";"))
    t = pick(r, opts)
    c.f("jump:" + t.split("(")[0].split(" ")[0].rstrip(";"))
    return t


def s_try(c):
    r = c.rng
    shape = pick(r, [(3, "tc"), (3, "tf"), (3, "tcf")])
    c.f("try:" + shape)
    t = "try " + block(c)
    if "c" in shape:
        x = r.random()
        if x < 0.6:
            e = c.fresh("e")
            c.locals.append([e])
            t += " catch (" + e + ") " + block(c)
            c.locals.pop()
        elif x < 0.8:
            a = c.fresh("e")
            c.locals.append([a])
            t += " catch ({message: " + a + "}) " + block(c)
            c.locals.pop()
            c.f("catch-pattern")
        else:
            t += " catch " + block(c)
            c.f("catch-no-binding")
    if "f" in shape:
        t += " finally " + block(c)
    return t


def loop_body(c):
    c.loops += 1
    c.breakables += 1
    try:
        return block(c)
    finally:
        c.loops -= 1
        c.breakables -= 1


def s_loop(c, label=None):
    r = c.rng
    kind = pick(r, [(3, "for"), (2, "forof"), (1.5, "forin"), (1.5, "while"), (1, "dowhile"), (0.7, "forawait")])
    if kind == "forawait" and c.fn not in ("async", "agen"):
        kind = "forof"
    c.f("loop:" + kind)
    i = c.fresh("i")
    if kind == "for":
        dk = r.choice(["let", "let", "var"])
        c.locals.append([i])
        cap = ""
        if dk == "let" and r.random() < 0.4:
            cap = "fns.push(() => " + i + "); "
            c.f("captured-loop-let")
        b = loop_body(c)
        c.locals.pop()
        return "for (%s %s = 0; %s < %d; %s++) { %s%s }" % (dk, i, i, r.randrange(1, 4), i, cap, b[1:-1])
    if kind in ("forof", "forawait", "forin"):
        src = r.choice(["arr", "[1,2,3]", "iterG()", "obj", "'ab'"]) if kind != "forin" else r.choice(["obj", "arr", "{a:1,b:2}"])
        if kind == "forof" and src == "obj":
            src = "arr"
        x = r.random()
        kw = "of" if kind != "forin" else "in"
        aw = "await " if kind == "forawait" else ""
        if x < 0.5:
            dk = r.choice(["let", "const", "var"])
            c.locals.append([i])
            if dk == "const":
                c.consts.add(i)
            cap = "fns.push(() => " + i + "); " if r.random() < 0.3 else ""
            if dk != "var" and r.random() < 0.3:
                # the head expression gets its own (TDZ) scope: make that scope real -- a closure over the loop variable or a
                # direct eval in the head -- and capture the loop variable and an inner let in the body
                c.f("loop-head-scope-escapes:" + kind)
                inner = c.fresh()
                src = r.choice(["[() => %s, 2]" % i, "(eval('1'), %s)" % ("arr" if kw == "of" else "obj"),
                                "[function () { return %s }]" % i, "(fns.push(() => %s), %s)" % (i, "arr" if kw == "of" else "obj")])
                if kw == "in":
                    src = src if src.startswith("(") else "{a: () => %s}" % i
                cap = "fns.push(() => %s); let %s = %s; fns.push(() => %s + 1); " % (i, inner, i, inner)
            b = loop_body(c)
            c.locals.pop()
            return "for %s(%s %s %s %s) { %s%s }" % (aw, dk, i, kw, src, cap, b[1:-1])
        if x < 0.7:
            a, b2 = c.fresh(), c.fresh()
            c.locals.append([a, b2])
            b = loop_body(c)
            c.locals.pop()
            c.f("loop-head-pattern")
            return "for %s(let [%s, %s = 1] %s %s) %s" % (aw, a, b2, kw, "[[1,2],[3]]" if kw == "of" else src, b)
        t, k = assign_target(c)
        c.f("loop-head-target:" + k)
        if r.random() < 0.3:
            t = pattern(c)
            src = "[[1,2],[3,4]]" if kw == "of" else src
        return "for %s(%s %s %s) %s" % (aw, t, kw, src, loop_body(c))
    if kind == "while":
        return "{ let %s = 0; while (%s++ < %d) %s }" % (i, i, r.randrange(1, 4), loop_body(c))
    return "{ let %s = 0; do %s while (%s++ < %d); }" % (i, loop_body(c), i, r.randrange(1, 3))


def s_switch(c):
    r = c.rng
    c.f("switch")
    c.breakables += 1
    c.locals.append([])
    try:
        cases = []
        for k in range(r.randrange(1, 4)):
            inner = []
            for _ in range(r.randrange(0, 3)):
                if c.take():
                    inner.append(stmt(c))
            if r.random() < 0.6:
                inner.append("break;")
            cases.append("case " + (str(k) if r.random() < 0.7 else expr(c, 1)) + ": " + " ".join(inner))
        if r.random() < 0.6:
            cases.insert(r.randrange(len(cases) + 1), "default: " + (stmt(c) if c.take() else ";"))
        return "switch (" + expr(c, 2) + ") { " + " ".join(cases) + " }"
    finally:
        c.locals.pop()
        c.breakables -= 1


def s_labelled(c):
    r = c.rng
    l = c.fresh("L")
    c.f("labelled")
    if r.random() < 0.6:
        c.labels.append((l, True))
        try:
            return l + ": " + s_loop(c).lstrip()  # may be a block-wrapped while: then continue L is illegal -> handled below
        finally:
            c.labels.pop()
    c.labels.append((l, False))
    try:
        return l + ": " + block(c)
    finally:
        c.labels.pop()


def s_with(c):
    r = c.rng
    c.f("with")
    c.in_with += 1
    try:
        return "with (" + r.choice(["obj", "obj.q || {}", "{p: 1, gv0: 2}", "arr"]) + ") " + block(c)
    finally:
        c.in_with -= 1


def s_fn_decl(c):
    r = c.rng
    kind = pick(r, [(4, "fn"), (1.5, "gen"), (1.5, "async"), (0.8, "agen")])
    name = c.fresh("fd")
    c.locals[-1].append(name)
    ptext, pnames = params(c)
    s = c.sub(kind, pnames)
    s.in_class = False
    s.has_super = False
    s.privs = []
    head = {"fn": "function", "gen": "function*", "async": "async function", "agen": "async function*"}[kind]
    c.f("function-decl:" + kind)
    t = head + " " + name + "(" + ptext + ") { " + body(s, r.randrange(1, 5)) + " }"
    sync_budget(c, s)
    use = ""
    x = r.random()
    if kind == "gen":
        use = " try { for (const y of %s(1,2)) { if (y) break; } } catch (e) {}" % name if x < 0.5 else " try { const it = %s(1); it.next(); it.next(2); it.return(3); it.throw(4); } catch (e) {}" % name
    elif kind in ("async", "agen"):
        use = " try { const pr = %s(1,2); if (pr.next) { pr.next(); pr.return(1); } else pr.then(print, print); } catch (e) {}" % name
    elif x < 0.8:
        use = " try { %s(%s); } catch (e) {}" % (name, args(c, 2))
    return t + use


def s_jump_through_finally(c):
    """return / break / continue to outer labels from inside a loop / switch / labelled block that has a real runtime
    environment open (captured let/const, catch binding), nested in one or two try-finally levels whose finally block
    declares and captures its own let"""
    r = c.rng
    c.f("jump-through-scoped-finally")
    L = c.fresh("L")
    i, v, z, z2, e = c.fresh("i"), c.fresh(), c.fresh(), c.fresh(), c.fresh("e")
    jumps = ["break %s;" % L, "continue %s;" % L]
    if c.fn is not None:
        jumps += ["return %s;" % v, "return;", "return %s;" % v]
    j = r.choice(jumps)
    guard = "if (%s) " % expr(c, 1) if r.random() < 0.6 else ""
    inner = pick(r, [
        (3, "for (let %s = 0; %s < 2; %s++) { fns.push(() => %s); let %s = %s; fns.push(() => %s); %s%s }" % (i, i, i, i, v, i, v, guard, j)),
        (2, "for (const %s of [1, 2]) { let %s = %s; fns.push(() => %s + %s); %s%s }" % (i, v, i, v, i, guard, j)),
        (2, "{ let %s = 0; while (%s++ < 2) { let %s = %s; fns.push(() => %s); %s%s } }" % (i, i, v, i, v, guard, j)),
        (2, "switch (1) { case 1: let %s = 1; fns.push(() => %s); %s%s }" % (v, v, guard, j)),
        (2, "{ let %s = 2; fns.push(() => %s); %s%s }" % (v, v, guard, j)),
        (2, "try { throw 1 } catch (%s) { let %s = %s; fns.push(() => %s + %s); %s%s }" % (e, v, e, v, e, guard, j)),
    ])
    fin = "finally { let %s = 1; fns.push(() => %s); }" % (z, z)
    body = "try { " + inner + " } " + (("catch (%s) { } " % c.fresh("e")) if r.random() < 0.4 else "") + fin
    if r.random() < 0.5:
        body = "try { " + body + " } finally { let %s = 2; fns.push(() => %s); }" % (z2, z2)
    return "%s: for (let %s = 0; %s < 2; %s++) { %s }" % (L, c.fresh("o"), "o%d" % c.uid, "o%d" % c.uid, body)


def s_class_decl(c):
    n = c.fresh("Cd")
    c.locals[-1].append(n)
    return class_expr(c, n)


def stmt(c):
    r = c.rng
    c.depth += 1
    try:
        if c.depth > 9:
            return expr(c, 1) + ";"
        opts = [
            (6, lambda: expr(c, 3) + ";"),
            (3, lambda: decl(c)),
            (1.2, lambda: closure_capture(c)),
            (3, lambda: s_try(c)),
            (2.5, lambda: s_loop(c)),
            (2, lambda: "if (" + expr(c, 2) + ") " + block(c) + (" else " + block(c) if r.random() < 0.4 else "")),
            (1.2, lambda: s_switch(c)),
            (1.2, lambda: s_labelled(c)),
            (2.5, lambda: jump_stmt(c)),
            (1.2, lambda: block(c)),
            (1.5, lambda: s_fn_decl(c)),
            (0.8, lambda: s_class_decl(c)),
            (0.7, lambda: s_jump_through_finally(c)),
        ]
        strict_fn = False
        if not strict_fn:
            opts.append((0.8, lambda: s_with(c)))
        return pick(r, opts)()
    finally:
        c.depth -= 1


PRELUDE = """var gv0 = 1, gv1 = 'x', gv2; let gl0 = 0, gl1 = null; var fns = [];
var obj = {p: 1, q: {p: 2}, r: null, m(a) { return a }, C: function (a) { this.p = a }, get x() { return 1 }, set x(v) {}};
var arr = [1, 2, 3];
function fnG(a, b) { return a }
function thrower() { throw new Error('t') }
function* iterG() { try { yield 1; yield 2; } finally { gv2 = 0 } }
function Ctor(a) { this.p = a }
class Base { constructor(a) { this.p = a } m(a) { return a } static s() { return 1 } get x() { return 1 } set x(v) {} }
class Derived extends Base { constructor(a) { super(a) } m(a) { return super.m(a) } }
"""


def gen_program(rng, size=60, strict=None, prelude=True):
    """size ~ number of grammar expansions; the budget is handed out per top-level statement so that a program is a
    sequence of moderately nested statements rather than one deep one."""
    c = Ctx(rng, size)
    c.locals = [[]]
    out = []
    if strict is None:
        strict = rng.random() < 0.12
    if strict:
        c.f("strict-script")
    remaining = size
    n = 0
    while remaining > 0 and n < 40:
        n += 1
        c.budget = min(remaining, rng.choice([6, 10, 16, 24, 40]))
        start = c.budget
        s = stmt(c)
        remaining -= max(1, start - max(c.budget, 0))
        if strict and "with (" in s:
            continue   # `with` is illegal in strict code
        if rng.random() < 0.5 and not s.startswith(("let ", "const ", "class ", "function", "async function")):
            s = "try { " + s + " } catch (e0) {}"
        out.append(s)
    text = ('"use strict";\n' if strict else "") + (PRELUDE if prelude else "") + "\n".join(out) + "\n"
    return text, c.feats


MUT_TOKENS = ["(", ")", "{", "}", "[", "]", ";", ",", "=", "=>", "...", "?.", "??=", "yield", "await", "break", "continue", "return",
              "let", "const", "var", "class", "extends", "super", "new", "delete", "typeof", "in", "of", "async", "function", "*", "`", "#p"]


def gen_malformed(rng, size=25):
    text, _ = gen_program(rng, size, prelude=False)
    body_start = 0
    chars = list(text)
    for _ in range(rng.randrange(1, 4)):
        pos = rng.randrange(body_start, len(chars))
        x = rng.random()
        if x < 0.4:
            chars[pos:pos] = list(" " + rng.choice(MUT_TOKENS) + " ")
        elif x < 0.7:
            del chars[pos:pos + rng.randrange(1, 6)]
        else:
            j = rng.randrange(body_start, len(chars))
            chars[pos], chars[j] = chars[j], chars[pos]
    return "".join(chars)


def escape(text):
    out = []
    for ch in text:
        o = ord(ch)
        if ch == "\\":
            out.append("\\\\")
        elif ch == "\n":
            out.append("\\n")
        elif ch == "\r":
            out.append("\\r")
        elif ch == "\t":
            out.append("\\t")
        elif 0x20 <= o < 0x7f:
            out.append(ch)
        elif o < 0x10000:
            out.append("\\u%04x" % o)
        else:
            o -= 0x10000
            out.append("\\u%04x\\u%04x" % (0xD800 + (o >> 10), 0xDC00 + (o & 0x3ff)))
    return "".join(out)


if __name__ == "__main__":
    import sys
    rng = random.Random(int(sys.argv[1]) if len(sys.argv) > 1 else 1)
    t, f = gen_program(rng, int(sys.argv[2]) if len(sys.argv) > 2 else 60)
    print(t)
    print("//", sorted(f))
