"""C08: seeded generator of terminating programs built from every loop form, used for
(a) the CFG check on their code-block dumps and (b) the limit-grid search (limited run = prefix of the
unlimited run; under-limit runs identical).

All loops have syntactic trip counts (0..4); every statement of interest prints; catch blocks print 'caught…',
finally blocks print a running number, so a handler that observes a limit error shows up in the trace.
Randomness: only the `rng` passed in (run.rng).
"""

PRELUDE = (
    "function* range(n){ for (var i = 0; i < n; i++) { yield i; } }\n"
    "function iter(n){ var i = 0; return {[Symbol.iterator](){ return this; }, next(){ return i < n ? {done:false, value:i++} : {done:true}; }, return(){ print('iter.return'); return {}; }}; }\n"
    "var fin = 0;\n"
)

LOOP_FORMS = ["while", "do", "for", "forlet", "forin", "forof", "forofgen", "forofiter", "fordestr", "forinarr"]


class Gen:
    def __init__(self, rng, max_depth=3):
        self.rng = rng
        self.n = 0
        self.max_depth = max_depth
        self.features = set()
        self.funcs = []      # helper function texts

    def fresh(self, p):
        self.n += 1
        return "%s%d" % (p, self.n)

    def pick(self, xs):
        return xs[self.rng.randrange(len(xs))]

    # ctx: kind in plain|gen|async|agen ; labels: list of (label, is_loop)
    def block(self, depth, ctx, labels, n=None):
        n = n if n is not None else self.rng.randint(1, 3)
        return " ".join(self.stmt(depth, ctx, labels) for _ in range(n))

    def stmt(self, depth, ctx, labels):
        r = self.rng.random()
        if depth >= self.max_depth or r < 0.22:
            return "print('p%d');" % self.rng.randrange(100)
        if r < 0.60:
            return self.loop(depth, ctx, labels)
        if r < 0.72:
            return self.trystmt(depth, ctx, labels)
        if r < 0.80:
            return self.callstmt(depth, ctx)
        if r < 0.86 and ctx in ("gen", "agen"):
            self.features.add("yield")
            return "yield %d;" % self.rng.randrange(10)
        if r < 0.90 and ctx in ("async", "agen"):
            self.features.add("await")
            return "await null;"
        if r < 0.95:
            return self.spreadstmt()
        return "if (fin %% %d == 0) { %s } else { %s }" % (self.rng.randint(1, 3), self.block(depth + 1, ctx, labels, 1), self.block(depth + 1, ctx, labels, 1))

    def jumpstmt(self, var, labels, own):
        """A guarded break/continue, possibly to an outer label."""
        if not labels or self.rng.random() < 0.5:
            return ""
        lab, _ = self.pick(labels)
        kind = self.pick(["continue", "break"])
        self.features.add(kind + ("-outer" if lab != own else ""))
        return "if (%s == %d) { print('%s %s'); %s %s; }" % (var, self.rng.randint(0, 2), kind, lab, kind, lab)

    def loop(self, depth, ctx, labels):
        forms = list(LOOP_FORMS)
        if ctx in ("async", "agen"):
            forms += ["forawait", "forawait"]
        form = self.pick(forms)
        self.features.add(form)
        n = self.rng.randint(0, 4 if depth == 0 else 3)
        v = self.fresh("i")
        lab = self.fresh("L")
        labels2 = labels + [(lab, True)]
        body = "print('%s', %s); %s %s" % (form, v, self.jumpstmt(v, labels2, lab), self.block(depth + 1, ctx, labels2))
        arr = "[" + ",".join(str(k) for k in range(n)) + "]"
        if form == "while":
            s = "var %s = 0; %s: while (%s < %d) { %s++; %s }" % (v, lab, v, n, v, body)
        elif form == "do":
            s = "var %s = 0; %s: do { %s++; %s } while (%s < %d);" % (v, lab, v, body, v, n)
        elif form == "for":
            s = "%s: for (var %s = 0; %s < %d; %s++) { %s }" % (lab, v, v, n, v, body)
        elif form == "forlet":
            s = "var fs%s = []; %s: for (let %s = 0; %s < %d; %s++) { fs%s.push(() => %s); %s } print(fs%s.map(f => f()).join());" % (v, lab, v, v, n, v, v, v, body, v)
        elif form == "forin":
            obj = "{" + ",".join("k%d:%d" % (k, k) for k in range(n)) + "}"
            s = "%s: for (var %s in %s) { %s }" % (lab, v, obj, body)
        elif form == "forinarr":
            s = "%s: for (var %s in %s) { %s }" % (lab, v, arr, body)
        elif form == "forof":
            s = "%s: for (var %s of %s) { %s }" % (lab, v, arr, body)
        elif form == "forofgen":
            s = "%s: for (const %s of range(%d)) { %s }" % (lab, v, n, body)
        elif form == "forofiter":
            s = "%s: for (let %s of iter(%d)) { %s }" % (lab, v, n, body)
        elif form == "fordestr":
            pairs = "[" + ",".join("[%d,%d,%d]" % (k, k + 1, k + 2) for k in range(n)) + "]"
            s = "%s: for (var [%s, ...r%s] of %s) { print(r%s.length); %s }" % (lab, v, v, pairs, v, body)
        else:  # forawait
            s = "%s: for await (var %s of %s) { %s }" % (lab, v, arr, body)
        return s

    def trystmt(self, depth, ctx, labels):
        self.features.add("try")
        thr = "if (fin %% %d == 1) { throw new Error('t'); }" % self.rng.randint(2, 3) if self.rng.random() < 0.5 else ""
        if thr:
            self.features.add("throw")
        inner = self.block(depth + 1, ctx, labels)
        kind = self.rng.random()
        if kind < 0.35:
            return "try { %s %s } catch (e) { print('caught', e.message); }" % (inner, thr)
        if kind < 0.6 and not thr:
            return "try { %s } finally { print('fin', ++fin); }" % inner
        return "try { %s %s } catch (e) { print('caught', e.message); } finally { print('fin', ++fin); }" % (inner, thr)

    def callstmt(self, depth, ctx):
        name = self.fresh("f")
        body = self.block(depth + 1, "plain", [])
        route = self.pick(["call", "new", "getter", "forEach", "sort", "replace", "valueOf", "bind", "apply", "eval", "tagged", "field", "proxy", "spreadgen"])
        self.features.add("route-" + route)
        self.funcs.append("function %s(){ print('in %s'); %s return 1; }" % (name, name, body))
        return {
            "call": "%s();" % name,
            "new": "new %s();" % name,
            "getter": "({get x(){ return %s(); }}).x;" % name,
            "forEach": "[1,2].forEach(function(){ %s(); });" % name,
            "sort": "[2,1].sort(function(a, b){ %s(); return a - b; });" % name,
            "replace": "'ab'.replace('a', function(){ %s(); return ''; });" % name,
            "valueOf": "+{valueOf: %s};" % name,
            "bind": "%s.bind(null)();" % name,
            "apply": "%s.apply(null, []);" % name,
            "eval": "eval('%s()');" % name,
            "tagged": "%s`x`;" % name,
            "field": "new (class { x = %s(); })();" % name,
            "proxy": "new Proxy({}, {get(){ return %s(); }}).x;" % name,
            "spreadgen": "print([...(function*(){ yield %s(); yield 2; })()].length);" % name,
        }[route]

    def spreadstmt(self):
        k = self.rng.randint(0, 3)
        self.features.add("spread/destructuring")
        return self.pick([
            "print(Math.max(0, ...range(%d)));" % k,
            "var [a%d, ...r%d] = range(%d); print(r%d.length);" % (self.n, self.n, k + 1, self.n),
            "print([...iter(%d), ...[1,2]].length);" % k,
            "var {x%d, ...o%d} = {x%d:1, y:2, z:3}; print(Object.keys(o%d).length);" % (self.n, self.n, self.n, self.n),
        ])

    def program(self):
        """Returns (text, features, uses_async)."""
        self.features = set()
        self.funcs = []
        parts = []
        kinds = ["plain", "plain", "gen", "async", "toplevel", "agen", "method", "arrow"]
        k = self.rng.randint(1, 3)
        uses_async = False
        for _ in range(k):
            kind = self.pick(kinds)
            self.features.add("ctx-" + kind)
            name = self.fresh("m")
            if kind == "plain":
                parts.append("function %s(){ %s }\n%s();" % (name, self.block(0, "plain", []), name))
            elif kind == "toplevel":
                parts.append(self.block(0, "plain", []))
            elif kind == "arrow":
                parts.append("var %s = () => { %s };\n%s();" % (name, self.block(0, "plain", []), name))
            elif kind == "method":
                parts.append("class C%s { static { %s } m(){ %s } }\nnew C%s().m();" % (name, self.block(1, "plain", []), self.block(0, "plain", []), name))
            elif kind == "gen":
                body = self.block(0, "gen", [])
                use = self.pick(["for (var y%s of %s()) { print('got', y%s); }", "print([...%s()].join());", "var it%s = %s(); it%s.next(); it%s.return(7);"])
                parts.append("function* %s(){ %s }\n%s" % (name, body, use.replace("%s", name)))
            elif kind == "async":
                uses_async = True
                parts.append("async function %s(){ %s }\n%s().then(() => print('done %s'), e => print('rejected %s'));" % (name, self.block(0, "async", []), name, name, name))
            else:
                uses_async = True
                parts.append("async function* %s(){ %s }\n(async () => { for await (var z%s of %s()) { print('agot', z%s); } print('adone'); })();" % (name, self.block(0, "agen", []), name, name, name))
        text = PRELUDE + "\n".join(self.funcs) + "\n" + "\n".join(parts) + "\nprint('SYNC-END');\n"
        return text, sorted(self.features), uses_async


# Fixed corpus of loop forms for the CFG tie (one of each lowering path, in each function kind)
FIXED = [
    "var i = 0; while (i < 3) { i++; }",
    "var i = 0; do { i++; } while (i < 3);",
    "for (var i = 0; i < 3; i++) {}",
    "for (;;) { break; }",
    "var fs = []; for (let i = 0; i < 3; i++) { fs.push(() => i); }",
    "for (const x = 1; ; ) { break; }",
    "for (var k in {a:1}) {}",
    "for (let k in {a:1}) { (() => k)(); }",
    "for (var k in null) {}",
    "for (var k of [1]) {}",
    "for (let [a, ...b] of [[1,2]]) { (() => a)(); }",
    "for (const {x, ...y} of [{x:1}]) {}",
    "var o = {}; for (o.p of [1]) {} for (o['q'] in {a:1}) {}",
    "a: for (var i = 0; i < 3; i++) { b: while (true) { c: do { continue a; } while (0); } }",
    "a: { b: for (;;) { break a; } }",
    "var i = 0; l: while (1) { switch (i++) { case 0: continue l; case 1: break; default: break l; } }",
    "function f(){ for (var i = 0; i < 3; i++) { try { if (i) continue; if (i > 1) break; return 1; } catch (e) { continue; } finally { print(1); } } }",
    "function f(){ a: for (var x of [1]) { for (var y of [2]) { try { continue a; } finally { break a; } } } }",
    "function* g(){ for (var i = 0; i < 3; i++) { yield i; } yield* [1,2]; while (yield 1) {} }",
    "function* g(){ try { for (var x of [1]) { for (var y of [2]) { yield 1; return 2; } } } finally { print(1); } }",
    "async function f(){ for await (var x of [1]) { await x; } while (await 1) {} do { await 2; } while (0); }",
    "async function* f(){ for await (var x of [1]) { yield x; } yield* [1]; for (;;) { yield await 1; break; } }",
    "var f = async () => { for (var x of [1]) { await 1; } };",
    "var [a, , b = 1, ...c] = [1,2,3,4]; var {x, ...y} = {x:1, z:2}; [a, ...c] = [1,2]; ({x, ...y} = {});",
    "function f(){} f(...[1,2], 3); var z = [...[1,2], ...'ab']; new f(...z); f?.(...z);",
    "function f([a, ...b], {c, ...d}, ...e){ } f([1], {});",
    "class A { static { for (var i = 0; i < 2; i++) {} } x = (() => { while (0) {} })(); constructor(){ do {} while (0); } static m(){ for (var k in this) {} } }",
    "class B extends Array { constructor(){ super(...[1,2]); for (var x of this) {} } }",
    "with ({}) { for (var i of []) {} }",
    "var o = {}; o?.a?.[1]?.(); var t = `a${1}b`; var r = 1 ?? 2; r ||= 1; r &&= 2; r ??= 3;",
    "function t(){} t`a${1}b`;",
    "for (var i = 0, j = 10; i < j; i++, j--) { if (i % 2) continue; }",
    "var i = 0; while (i < 3) { i++; var j = 0; while (j < 2) { j++; for (var k of [1]) { do { k++; } while (k < 2); } } }",
    "label: for (var x of [1,2]) { for (var y in {a:1}) { if (x) continue label; else break label; } }",
    "function f(n){ while (n --> 0) { try { throw n; } catch (e) { for (var q of [e]) {} } finally { do {} while (false); } } }",
    "(function(){ 'use strict'; for (let i = 0; i < 2; i++) { for (let j = 0; j < 2; j++) { (() => i + j)(); } } })();",
    "eval('for (var i = 0; i < 2; i++) {}');",
    "new Function('while (false) {}');",
    "var g = function*(){ for (var x of [1]) { try { yield x; } finally { for (var y of [2]) { yield y; } } } };",
    "async function f(){ try { for await (const x of [1]) { break; } } finally { for (var i = 0; i < 1; i++) { await i; } } }",
    "var o = { get x(){ for (;;) { return 1; } }, set x(v){ while (v--) {} }, *g(){ for (;;) { yield 1; } }, async a(){ for (;;) { await 1; break; } } };",
    "for (var i = 0; i < 3; i++) { if (i) { continue; } else { for (var j = 0; j < 3; j++) { if (j) break; } } }",
    "if (true) while (false); else do ; while (false);",
    "for (let i = 0, f = () => i; i < 2; i++) { f(); }",
    "for (var [a, b] = [1, 2]; a < b; a++) {}",
    "var a = [1,2,3]; for (var [i, v] of a.entries()) {} for (var ch of 'abc') {} for (var e of new Set(a)) {} for (var [k, w] of new Map()) {}",
    "switch (1) { case 1: for (;;) { break; } case 2: while (0) {} }",
    "function f(){ return [...arguments].map(x => { for (var i = 0; i < x; i++) {} return i; }); }",
    "function* g(){ var x = yield* (function*(){ for (;;) { var r = yield 1; if (r) return r; } })(); }",
]


def _label_continue_corpus():
    forms = {
        "while": "var n = 0; LABS while (n < 9) { n++; CONT }",
        "do": "var n = 0; LABS do { n++; CONT } while (n < 9);",
        "for": "LABS for (var i = 0; i < 9; i++) { CONT }",
        "forlet": "LABS for (let i = 0; i < 9; i++) { (() => i)(); CONT }",
        "forof": "LABS for (var x of [1,2,3]) { CONT }",
        "forin": "LABS for (var x in {p:1}) { CONT }",
        "forawait": "async function f(){ LABS for await (var x of [1,2]) { CONT } }",
        "gen-do": "function* g(){ var n = 0; LABS do { n++; yield n; CONT } while (n < 9); }",
    }
    out = []
    for t in forms.values():
        for labs, cont in [("", "continue;"), ("a:", "continue a;"), ("a: b:", "continue a;"), ("a: b:", "continue b;"), ("a: b: c:", "continue a;"),
                           ("a: b: c:", "continue b;"), ("a: b:", "try { continue a; } finally { }"), ("", "try { continue; } finally { }"),
                           ("a:", "for (;;) { continue a; }"), ("a:", "do { try { continue a; } finally { } } while (0);"),
                           ("a: b:", "switch (1) { case 1: continue a; }")]:
            out.append(t.replace("LABS", labs).replace("CONT", cont))
    return out


FIXED += _label_continue_corpus()
