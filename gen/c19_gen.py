"""C19 generators: programs of the model fragment (coq/C19/Model_C19.v) as tuples mirroring the Coq constructors,
their S-expression wire form, JavaScript text with seeded layout, explicit-parenthesis variants, token-level
mutants, a JavaScript tokenizer producing the model's token words, and the extraction of the JS snippets
embedded in /repo's tests.  All randomness comes from the rng passed in."""
import os
import re

# ------------------------------------------------------------------------------------------------ AST helpers
# expr:  ('EThis',) ('EId',s) ('ENum',n) ('EStr',s) ('EBool',b) ('ENull',) ('EArray',[e|None]) ('EObject',[prop])
#        ('EParen',e) ('EFunc',name|None,[p],[stmt]) ('EArrow',[p],[stmt]) ('EMember',e,s) ('EIndex',e,i)
#        ('ECall',f,[a]) ('ENew',f,[a]) ('EUpdate',prefix,inc,e) ('EUnary',op,e) ('EBin',op,l,r) ('ECond',c,t,f)
#        ('EAssign',op|None,l,r)           op None = plain `=`
# prop:  ('PShort',s) ('PKV',k,v) ('PComputed',k,v)
# stmt:  ('SBlock',[s]) ('SVar',[(x,e|None)]) ('SLet',..) ('SConst',..) ('SEmpty',) ('SExpr',e) ('SIf',c,t,f|None)
#        ('SDoWhile',b,c) ('SWhile',c,b) ('SFor',init,c|None,s|None,b) ('SForIn',head,e,b) ('SForOf',head,e,b)
#        ('SSwitch',e,[(c|None,[s])]) ('SContinue',l|None) ('SBreak',l|None) ('SReturn',e|None) ('SLabelled',l,s)
#        ('SThrow',e) ('STry',[s],(p|None,[s])|None,[s]|None) ('SDebugger',) ('SFunDecl',name,[p],[s])
# init:  ('FINone',) ('FIExpr',e) ('FIVar',ds) ('FILet',ds) ('FIConst',ds)
# head:  ('FHVar',x) ('FHLet',x) ('FHConst',x) ('FHTarget',e)

BINOPS = {"Add": "+", "Sub": "-", "Mul": "*", "Div": "/", "Mod": "%", "Exp": "**", "Shl": "<<", "Shr": ">>", "UShr": ">>>",
          "Lt": "<", "Gt": ">", "Le": "<=", "Ge": ">=", "Eq": "==", "Ne": "!=", "SEq": "===", "SNe": "!==", "BitAnd": "&",
          "BitOr": "|", "BitXor": "^", "LAnd": "&&", "LOr": "||", "Coal": "??", "In": "in", "InstanceOf": "instanceof",
          "Comma": ","}
BINLVL = {"Comma": 0, "LOr": 3, "LAnd": 3, "Coal": 3, "BitOr": 4, "BitXor": 5, "BitAnd": 6, "Eq": 7, "Ne": 7, "SEq": 7,
          "SNe": 7, "Lt": 8, "Gt": 8, "Le": 8, "Ge": 8, "In": 8, "InstanceOf": 8, "Shl": 9, "Shr": 9, "UShr": 9, "Add": 10,
          "Sub": 10, "Mul": 11, "Div": 11, "Mod": 11, "Exp": 12}
ASSIGNOPS = ["Add", "Sub", "Mul", "Div", "Mod", "Exp", "BitAnd", "BitOr", "BitXor", "Shl", "Shr", "UShr", "LAnd", "LOr", "Coal"]
UNOPS = {"UDelete": "delete", "UVoid": "void", "UTypeof": "typeof", "UPlus": "+", "UMinus": "-", "UTilde": "~", "UNot": "!"}
KEYWORDS = ["this", "function", "new", "delete", "void", "typeof", "in", "instanceof", "var", "let", "const", "if", "else",
            "do", "while", "for", "of", "switch", "case", "default", "continue", "break", "return", "throw", "try", "catch",
            "finally", "debugger"]
# every reserved word / contextual keyword boa's lexer turns into a Keyword token
ALL_KEYWORDS = set(KEYWORDS) | {"await", "async", "class", "enum", "export", "extends", "import", "super", "with", "yield",
                                "implements", "interface", "package", "private", "protected", "public", "static", "using"}


def lvl(e):
    t = e[0]
    if t == "EBin":
        return BINLVL[e[1]]
    if t in ("EAssign", "EArrow"):
        return 1
    if t == "ECond":
        return 2
    if t == "EUnary":
        return 13
    if t == "EUpdate":
        return 14
    if t == "ECall":
        return 15
    if t in ("EMember", "EIndex"):
        return 16 if lvl(e[1]) >= 16 else 15
    if t == "ENew":
        return 16
    return 17


def paren(e):
    return ("EParen", e)


def at(e, n):
    """e if it may stand where the grammar wants level >= n, else parenthesised"""
    return e if lvl(e) >= n else paren(e)


def contains_in(e):
    """an unparenthesised `in` reachable at the levels where allow_in matters"""
    t = e[0]
    if t == "EBin":
        if e[1] == "In":
            return True
        if BINLVL[e[1]] <= 8:
            return contains_in(e[2]) or contains_in(e[3])
        return False
    if t == "ECond":
        return contains_in(e[1]) or contains_in(e[3])
    if t == "EAssign":
        return contains_in(e[3])
    return False


def shape(e, ain=True):
    """insert the parentheses a correct printer would: the result is parser-shaped (Model_C19.wf)"""
    t = e[0]
    if t in ("EThis", "EId", "ENum", "EStr", "EBool", "ENull"):
        return e
    if t == "EArray":
        return ("EArray", [None if x is None else at(shape(x), 1) for x in e[1]])
    if t == "EObject":
        out = []
        for p in e[1]:
            if p[0] == "PShort":
                out.append(p)
            elif p[0] == "PKV":
                out.append(("PKV", p[1], at(shape(p[2]), 1)))
            else:
                out.append(("PComputed", at(shape(p[1]), 1), at(shape(p[2]), 1)))
        return ("EObject", out)
    if t == "EParen":
        return ("EParen", shape(e[1]))
    if t == "EFunc":
        return ("EFunc", e[1], e[2], [shape_s(s, True) for s in e[3]])
    if t == "EArrow":
        return ("EArrow", e[1], [shape_s(s, True) for s in e[2]])
    if t == "EMember":
        return ("EMember", at(shape(e[1]), 15), e[2])
    if t == "EIndex":
        return ("EIndex", at(shape(e[1]), 15), shape(e[2]))
    if t == "ECall":
        return ("ECall", at(shape(e[1]), 15), [at(shape(a), 1) for a in e[2]])
    if t == "ENew":
        return ("ENew", at(shape(e[1]), 16), [at(shape(a), 1) for a in e[2]])
    if t == "EUpdate":
        return ("EUpdate", e[1], e[2], simple(shape(e[3])))
    if t == "EUnary":
        return ("EUnary", e[1], at(shape(e[2]), 13))
    if t == "ECond":
        c, a, b = shape(e[1], ain), shape(e[2]), shape(e[3], ain)
        r = ("ECond", at(c, 3), at(a, 1), at(b, 1))
        return r
    if t == "EAssign":
        return ("EAssign", e[1], simple(shape(e[2])), at(shape(e[3], ain), 1))
    if t == "EBin":
        o = e[1]
        l, r = shape(e[2], ain), shape(e[3], ain)
        if o == "Comma":
            res = ("EBin", o, l, at(r, 1))
        elif o == "LOr":
            l2 = l if (lvl(l) >= 4 or (l[0] == "EBin" and l[1] == "LAnd")) else paren(l)
            r2 = r if (lvl(r) >= 4 or (r[0] == "EBin" and r[1] in ("LAnd", "LOr"))) else paren(r)
            res = ("EBin", o, l2, r2)
        elif o == "LAnd":
            l2 = l if (lvl(l) >= 4 or (l[0] == "EBin" and l[1] == "LAnd")) else paren(l)
            res = ("EBin", o, l2, at(r, 4))
        elif o == "Coal":
            l2 = l if (lvl(l) >= 4 or (l[0] == "EBin" and l[1] == "Coal")) else paren(l)
            res = ("EBin", o, l2, at(r, 4))
        elif o == "Exp":
            res = ("EBin", o, at(l, 14), at(r, 12))
        else:
            res = ("EBin", o, at(l, BINLVL[o]), at(r, BINLVL[o] + 1))
        if not ain and contains_in(res):
            return paren(shape(e, True))
        return res
    raise ValueError(e)


def simple(e):
    while e[0] == "EParen":
        e = e[1]
    if e[0] in ("EId", "EMember", "EIndex"):
        return e
    return ("EId", "t")


def is_decl(s):
    return s[0] in ("SLet", "SConst", "SFunDecl")


def open_if(s):
    t = s[0]
    if t == "SIf":
        return True if s[3] is None else open_if(s[3])
    if t in ("SWhile",):
        return open_if(s[2])
    if t == "SFor":
        return open_if(s[4])
    if t in ("SForIn", "SForOf"):
        return open_if(s[3])
    if t == "SLabelled":
        return open_if(s[2])
    return False


def sub(s, aret):
    s = shape_s(s, aret)
    return ("SBlock", [s]) if is_decl(s) else s


def first_word(e):
    return js_tokens(print_expr(e))[0]


def shape_decls(ds, ain):
    return [(x, None if i is None else at(shape(i, ain), 1)) for x, i in ds]


def shape_s(s, aret):
    t = s[0]
    if t == "SBlock":
        return ("SBlock", [shape_s(x, aret) for x in s[1]])
    if t in ("SVar", "SLet", "SConst"):
        ds = shape_decls(s[1], True)
        if t == "SConst":
            ds = [(x, i if i is not None else ("ENum", 0)) for x, i in ds]
        return (t, ds)
    if t in ("SEmpty", "SDebugger", "SContinue", "SBreak"):
        return s
    if t == "SExpr":
        e = shape(s[1])
        if e == ("EStr", "use strict"):
            # after fix 74a3e23 boa's printer parenthesises a leading "use strict" string statement of a non-strict list
            # (strictness is outside the model): keep such statements parenthesised in the generated AST
            e = paren(e)
        w = first_word(e)
        if w in ("{", "K:function", ";") or (w.startswith("K:") and w[2:] not in ("this", "new", "delete", "void", "typeof")):
            e = paren(e)
        return ("SExpr", e)
    if t == "SIf":
        th = sub(s[2], aret)
        if s[3] is not None and open_if(th):
            th = ("SBlock", [th])
        return ("SIf", shape(s[1]), th, None if s[3] is None else sub(s[3], aret))
    if t == "SDoWhile":
        return ("SDoWhile", sub(s[1], aret), shape(s[2]))
    if t == "SWhile":
        return ("SWhile", shape(s[1]), sub(s[2], aret))
    if t == "SFor":
        i = s[1]
        if i[0] == "FIExpr":
            e = shape(i[1], False)
            if first_word(e) in ("K:let", "K:var", "K:const", ";"):
                e = paren(e)
            i = ("FIExpr", e)
        elif i[0] in ("FIVar", "FILet", "FIConst"):
            ds = shape_decls(i[1], False)
            if i[0] == "FIConst":
                ds = [(x, v if v is not None else ("ENum", 0)) for x, v in ds]
            i = (i[0], ds)
        return ("SFor", i, None if s[2] is None else shape(s[2]), None if s[3] is None else shape(s[3]), sub(s[4], aret))
    if t in ("SForIn", "SForOf"):
        h = s[1]
        if h[0] == "FHTarget":
            h = ("FHTarget", simple(shape(h[1])))
        e = shape(s[2])
        if t == "SForOf":
            e = at(e, 1)
        return (t, h, e, sub(s[3], aret))
    if t == "SSwitch":
        seen = False
        cs = []
        for c, b in s[2]:
            if c is None:
                if seen:
                    c = ("ENum", 7)
                seen = seen or c is None
            cs.append((None if c is None else shape(c), [shape_s(x, aret) for x in b]))
        return ("SSwitch", shape(s[1]), cs)
    if t == "SReturn":
        if not aret:
            return ("SExpr", ("EId", "ret"))
        return ("SReturn", None if s[1] is None else shape(s[1]))
    if t == "SLabelled":
        return ("SLabelled", s[1], sub(s[2], aret))
    if t == "SThrow":
        return ("SThrow", shape(s[1]))
    if t == "STry":
        c, f = s[2], s[3]
        if c is None and f is None:
            f = []
        return ("STry", [shape_s(x, aret) for x in s[1]], None if c is None else (c[0], [shape_s(x, aret) for x in c[1]]),
                None if f is None else [shape_s(x, aret) for x in f])
    if t == "SFunDecl":
        return ("SFunDecl", s[1], s[2], [shape_s(x, True) for x in s[3]])
    raise ValueError(s)


def shape_prog(p):
    return [shape_s(s, False) for s in p]


# ------------------------------------------------------------------------------------------------ wire form

def wq(s):
    out = ['"']
    for ch in s:
        c = ord(ch)
        if ch in '"\\' or c < 0x21 or c > 0x7E:
            if c > 0xFFFF:
                c -= 0x10000
                out.append("\\u%04x\\u%04x" % (0xD800 + (c >> 10), 0xDC00 + (c & 0x3FF)))
            elif ch == '"':
                out.append('\\"')
            elif ch == "\\":
                out.append("\\\\")
            else:
                out.append("\\u%04x" % c)
        else:
            out.append(ch)
    out.append('"')
    return "".join(out)


def wl(xs):
    return "[" + " ".join(xs) + "]"


def wo(x, f):
    return "None" if x is None else "(Some %s)" % f(x)


def wb(b):
    return "true" if b else "false"


def sx_e(e):
    t = e[0]
    if t in ("EThis", "ENull"):
        return t
    if t in ("EId", "EStr"):
        return "(%s %s)" % (t, wq(e[1]))
    if t == "ENum":
        return "(ENum %d)" % e[1]
    if t == "EBool":
        return "(EBool %s)" % wb(e[1])
    if t == "EArray":
        return "(EArray %s)" % wl(wo(x, sx_e) for x in e[1])
    if t == "EObject":
        ps = []
        for p in e[1]:
            if p[0] == "PShort":
                ps.append("(PShort %s)" % wq(p[1]))
            elif p[0] == "PKV":
                ps.append("(PKV %s %s)" % (wq(p[1]), sx_e(p[2])))
            else:
                ps.append("(PComputed %s %s)" % (sx_e(p[1]), sx_e(p[2])))
        return "(EObject %s)" % wl(ps)
    if t == "EParen":
        return "(EParen %s)" % sx_e(e[1])
    if t == "EFunc":
        return "(EFunc %s %s %s)" % (wo(e[1], wq), wl(wq(p) for p in e[2]), wl(sx_s(s) for s in e[3]))
    if t == "EArrow":
        return "(EArrow %s %s)" % (wl(wq(p) for p in e[1]), wl(sx_s(s) for s in e[2]))
    if t == "EMember":
        return "(EMember %s %s)" % (sx_e(e[1]), wq(e[2]))
    if t == "EIndex":
        return "(EIndex %s %s)" % (sx_e(e[1]), sx_e(e[2]))
    if t in ("ECall", "ENew"):
        return "(%s %s %s)" % (t, sx_e(e[1]), wl(sx_e(a) for a in e[2]))
    if t == "EUpdate":
        return "(EUpdate %s %s %s)" % (wb(e[1]), wb(e[2]), sx_e(e[3]))
    if t == "EUnary":
        return "(EUnary %s %s)" % (e[1], sx_e(e[2]))
    if t == "EBin":
        return "(EBin %s %s %s)" % (e[1], sx_e(e[2]), sx_e(e[3]))
    if t == "ECond":
        return "(ECond %s %s %s)" % (sx_e(e[1]), sx_e(e[2]), sx_e(e[3]))
    if t == "EAssign":
        return "(EAssign %s %s %s)" % ("AAssign" if e[1] is None else "(AOp %s)" % e[1], sx_e(e[2]), sx_e(e[3]))
    raise ValueError(e)


def sx_ds(ds):
    return wl("(Pair %s %s)" % (wq(x), wo(i, sx_e)) for x, i in ds)


def sx_items(b):
    return wl(sx_s(s) for s in b)


def sx_s(s):
    t = s[0]
    if t in ("SEmpty", "SDebugger"):
        return t
    if t == "SBlock":
        return "(SBlock %s)" % sx_items(s[1])
    if t in ("SVar", "SLet", "SConst"):
        return "(%s %s)" % (t, sx_ds(s[1]))
    if t == "SExpr":
        return "(SExpr %s)" % sx_e(s[1])
    if t == "SIf":
        return "(SIf %s %s %s)" % (sx_e(s[1]), sx_s(s[2]), wo(s[3], sx_s))
    if t == "SDoWhile":
        return "(SDoWhile %s %s)" % (sx_s(s[1]), sx_e(s[2]))
    if t == "SWhile":
        return "(SWhile %s %s)" % (sx_e(s[1]), sx_s(s[2]))
    if t == "SFor":
        i = s[1]
        if i[0] == "FINone":
            ii = "FINone"
        elif i[0] == "FIExpr":
            ii = "(FIExpr %s)" % sx_e(i[1])
        else:
            ii = "(%s %s)" % (i[0], sx_ds(i[1]))
        return "(SFor %s %s %s %s)" % (ii, wo(s[2], sx_e), wo(s[3], sx_e), sx_s(s[4]))
    if t in ("SForIn", "SForOf"):
        h = s[1]
        hh = "(FHTarget %s)" % sx_e(h[1]) if h[0] == "FHTarget" else "(%s %s)" % (h[0], wq(h[1]))
        return "(%s %s %s %s)" % (t, hh, sx_e(s[2]), sx_s(s[3]))
    if t == "SSwitch":
        return "(SSwitch %s %s)" % (sx_e(s[1]), wl("(Pair %s %s)" % (wo(c, sx_e), sx_items(b)) for c, b in s[2]))
    if t in ("SContinue", "SBreak"):
        return "(%s %s)" % (t, wo(s[1], wq))
    if t == "SReturn":
        return "(SReturn %s)" % wo(s[1], sx_e)
    if t == "SLabelled":
        return "(SLabelled %s %s)" % (wq(s[1]), sx_s(s[2]))
    if t == "SThrow":
        return "(SThrow %s)" % sx_e(s[1])
    if t == "STry":
        c = "None" if s[2] is None else "(Some (Pair %s %s))" % (wo(s[2][0], wq), sx_items(s[2][1]))
        return "(STry %s %s %s)" % (sx_items(s[1]), c, wo(s[3], sx_items))
    if t == "SFunDecl":
        return "(SFunDecl %s %s %s)" % (wq(s[1]), wl(wq(p) for p in s[2]), sx_items(s[3]))
    raise ValueError(s)


def sx_prog(p):
    return sx_items(p)


# ------------------------------------------------------------------------------------------------ JavaScript text

def js_str(s, q='"'):
    out = [q]
    for ch in s:
        c = ord(ch)
        if ch == q or ch == "\\":
            out.append("\\" + ch)
        elif ch == "\n":
            out.append("\\n")
        elif ch == "\r":
            out.append("\\r")
        elif c < 0x20 or c in (0x2028, 0x2029, 0x7F):
            out.append("\\u%04x" % c)
        else:
            out.append(ch)
    out.append(q)
    return "".join(out)


class Layout:
    """emits a token sequence as text; with an rng the blanks/newlines between tokens vary (never a newline where
    the grammar forbids a line terminator: before postfix ++/--, before =>, after return/break/continue/throw)"""

    def __init__(self, rng=None, wild=0.0):
        self.rng = rng
        self.wild = wild

    def join(self, words):
        out = []
        prev = None
        for w in words:
            if prev is not None:
                out.append(self.sep(prev, w))
            out.append(w)
            prev = w
        return "".join(out)

    def sep(self, a, b):
        need = needs_space(a, b)
        if self.rng is None or self.rng.random() >= self.wild:
            return " " if need or default_space(a, b) else ""
        r = self.rng.random()
        no_nl = b in ("++", "--", "=>", ";", ",") or a in ("return", "break", "continue", "throw", "++", "--")
        if r < 0.3 and not need:
            return ""
        if r < 0.6:
            return " "
        if r < 0.75:
            return "  "
        if r < 0.8:
            return "\t"
        if r < 0.9 and not no_nl:
            return "\n"
        if r < 0.95 and not no_nl:
            return " /* c */ " if a != "/" else " "
        return " "


IDENT_CH = re.compile(r"[A-Za-z0-9_$\"']")


def needs_space(a, b):
    if IDENT_CH.match(a[-1]) and IDENT_CH.match(b[0]) and not (a[-1] in "\"'" or b[0] in "\"'"):
        return True
    if a[-1] in "+-" and b[0] == a[-1]:
        return True
    if a[-1].isdigit() and b[0] == ".":
        return True
    if a == "/" and b[0] == "/":
        return True
    if a[-1] in "<>=!&|?*%^/+-" and b[0] in "<>=!&|?*%^/+-.":
        return True
    if a == "?" and b[0] in ".0123456789":
        return True
    return False


def default_space(a, b):
    if b in (")", "]", ",", ";", ".", "(", "[", "++", "--") or a in ("(", "[", ".", "!", "~"):
        return False
    return True


STYLE = None   # a random.Random: print non-canonical but equivalent forms (concise arrows, trailing commas, ...)


def styled(p):
    return STYLE is not None and STYLE.random() < p


def words_e(e):
    t = e[0]
    if t == "EThis":
        return ["this"]
    if t == "ENull":
        return ["null"]
    if t == "EId":
        return [e[1]]
    if t == "ENum":
        return [str(e[1])]
    if t == "EStr":
        return [js_str(e[1])]
    if t == "EBool":
        return ["true" if e[1] else "false"]
    if t == "EArray":
        out = ["["]
        es = e[1]
        for k, x in enumerate(es):
            if x is None:
                out.append(",")
            else:
                out += words_e(x)
                if k + 1 < len(es) or styled(0.2):
                    out.append(",")
        return out + ["]"]
    if t == "EObject":
        out = ["{"]
        for k, p in enumerate(e[1]):
            if p[0] == "PShort":
                out.append(p[1])
            elif p[0] == "PKV":
                out += [p[1], ":"] + words_e(p[2])
            else:
                out += ["["] + words_e(p[1]) + ["]", ":"] + words_e(p[2])
            if k + 1 < len(e[1]) or styled(0.3):
                out.append(",")
        return out + ["}"]
    if t == "EParen":
        return ["("] + words_e(e[1]) + [")"]
    if t == "EFunc":
        return ["function"] + ([e[1]] if e[1] else []) + words_params(e[2]) + ["{"] + words_items(e[3]) + ["}"]
    if t == "EArrow":
        ps = [e[1][0]] if (len(e[1]) == 1 and styled(0.5)) else words_params(e[1])
        b = e[2]
        if len(b) == 1 and b[0][0] == "SReturn" and b[0][1] is not None and lvl(b[0][1]) >= 1 and styled(0.6):
            w = words_e(b[0][1])
            if w[0] != "{":
                return ps + ["=>"] + w
        return ps + ["=>", "{"] + words_items(b) + ["}"]
    if t == "EMember":
        return words_e(e[1]) + [".", e[2]]
    if t == "EIndex":
        return words_e(e[1]) + ["["] + words_e(e[2]) + ["]"]
    if t in ("ECall", "ENew"):
        out = (["new"] if t == "ENew" else []) + words_e(e[1]) + ["("]
        for k, a in enumerate(e[2]):
            out += words_e(a)
            if k + 1 < len(e[2]) or styled(0.15):
                out.append(",")
        return out + [")"]
    if t == "EUpdate":
        op = "++" if e[2] else "--"
        return [op] + words_e(e[3]) if e[1] else words_e(e[3]) + [op]
    if t == "EUnary":
        return [UNOPS[e[1]]] + words_e(e[2])
    if t == "EBin":
        return words_e(e[2]) + [BINOPS[e[1]]] + words_e(e[3])
    if t == "ECond":
        return words_e(e[1]) + ["?"] + words_e(e[2]) + [":"] + words_e(e[3])
    if t == "EAssign":
        return words_e(e[2]) + ["=" if e[1] is None else BINOPS[e[1]] + "="] + words_e(e[3])
    raise ValueError(e)


def words_params(ps):
    out = ["("]
    for k, p in enumerate(ps):
        out.append(p)
        if k + 1 < len(ps):
            out.append(",")
    return out + [")"]


def words_ds(ds):
    out = []
    for k, (x, i) in enumerate(ds):
        out.append(x)
        if i is not None:
            out += ["="] + words_e(i)
        if k + 1 < len(ds):
            out.append(",")
    return out


def words_items(b, closes=True):
    """closes: the list is directly followed by `}` (which may then stand for the last semicolon)"""
    out = []
    for k, s in enumerate(b):
        w = words_s(s)
        if closes and k + 1 == len(b) and w[-1] == ";" and len(w) > 1 and s[0] in ("SExpr", "SVar", "SLet", "SConst", "SReturn", "SThrow", "SBreak", "SContinue", "SDebugger") and styled(0.3):
            w = w[:-1]          # the `}` that follows stands for the semicolon
        out += w
    return out


def words_s(s):
    t = s[0]
    if t == "SBlock":
        return ["{"] + words_items(s[1]) + ["}"]
    if t in ("SVar", "SLet", "SConst"):
        return [{"SVar": "var", "SLet": "let", "SConst": "const"}[t]] + words_ds(s[1]) + [";"]
    if t == "SEmpty":
        return [";"]
    if t == "SDebugger":
        return ["debugger", ";"]
    if t == "SExpr":
        return words_e(s[1]) + [";"]
    if t == "SIf":
        return ["if", "("] + words_e(s[1]) + [")"] + words_s(s[2]) + ([] if s[3] is None else ["else"] + words_s(s[3]))
    if t == "SDoWhile":
        return ["do"] + words_s(s[1]) + ["while", "("] + words_e(s[2]) + [")", ";"]
    if t == "SWhile":
        return ["while", "("] + words_e(s[1]) + [")"] + words_s(s[2])
    if t == "SFor":
        i = s[1]
        if i[0] == "FINone":
            iw = []
        elif i[0] == "FIExpr":
            iw = words_e(i[1])
        else:
            iw = [{"FIVar": "var", "FILet": "let", "FIConst": "const"}[i[0]]] + words_ds(i[1])
        return (["for", "("] + iw + [";"] + ([] if s[2] is None else words_e(s[2])) + [";"] +
                ([] if s[3] is None else words_e(s[3])) + [")"] + words_s(s[4]))
    if t in ("SForIn", "SForOf"):
        h = s[1]
        hw = words_e(h[1]) if h[0] == "FHTarget" else [{"FHVar": "var", "FHLet": "let", "FHConst": "const"}[h[0]], h[1]]
        return ["for", "("] + hw + ["in" if t == "SForIn" else "of"] + words_e(s[2]) + [")"] + words_s(s[3])
    if t == "SSwitch":
        out = ["switch", "("] + words_e(s[1]) + [")", "{"]
        for k, (c, b) in enumerate(s[2]):
            out += (["default", ":"] if c is None else ["case"] + words_e(c) + [":"]) + words_items(b, k + 1 == len(s[2]))
        return out + ["}"]
    if t in ("SContinue", "SBreak"):
        return [t[1:].lower()] + ([s[1]] if s[1] else []) + [";"]
    if t == "SReturn":
        return ["return"] + ([] if s[1] is None else words_e(s[1])) + [";"]
    if t == "SLabelled":
        return [s[1], ":"] + words_s(s[2])
    if t == "SThrow":
        return ["throw"] + words_e(s[1]) + [";"]
    if t == "STry":
        out = ["try", "{"] + words_items(s[1]) + ["}"]
        if s[2] is not None:
            out += ["catch"] + (["(", s[2][0], ")"] if s[2][0] else []) + ["{"] + words_items(s[2][1]) + ["}"]
        if s[3] is not None:
            out += ["finally", "{"] + words_items(s[3]) + ["}"]
        return out
    if t == "SFunDecl":
        return ["function", s[1]] + words_params(s[2]) + ["{"] + words_items(s[3]) + ["}"]
    raise ValueError(s)


def print_expr(e):
    return Layout().join(words_e(e))


def to_js(prog, rng=None, wild=0.0, style=None):
    """JavaScript text of a program; rng+wild vary the layout, style (an rng) also the surface syntax"""
    global STYLE
    lay = Layout(rng, wild)
    STYLE = style
    try:
        return "\n".join(lay.join(words_s(s)) for s in prog) + "\n"
    finally:
        STYLE = None


# ------------------------------------------------------------------------------------------------ tokenizer
# JavaScript text -> the model's token words (ocaml/C19/c19_driver.ml).  Independent of boa's lexer.

PUNCTS = sorted([">>>=", "...", "===", "!==", "**=", "<<=", ">>=", ">>>", "&&=", "||=", "??=", "=>", "==", "!=", "<=", ">=",
                 "&&", "||", "??", "?.", "++", "--", "+=", "-=", "*=", "/=", "%=", "&=", "|=", "^=", "<<", ">>", "**", "{", "}",
                 "(", ")", "[", "]", ".", ";", ",", "<", ">", "+", "-", "*", "/", "%", "&", "|", "^", "!", "~", "?", ":", "=",
                 "#", "@"], key=lambda p: -len(p))
ID_START = re.compile(r"[A-Za-z_$]")
ID_PART = re.compile(r"[A-Za-z0-9_$]")


def wire_escape(s):
    out = []
    for ch in s:
        c = ord(ch)
        if ch in '"\\' or c < 0x21 or c > 0x7E:
            if c > 0xFFFF:
                c -= 0x10000
                out.append("\\u%04x\\u%04x" % (0xD800 + (c >> 10), 0xDC00 + (c & 0x3FF)))
            elif ch == '"':
                out.append('\\"')
            elif ch == "\\":
                out.append("\\\\")
            else:
                out.append("\\u%04x" % c)
        else:
            out.append(ch)
    return "".join(out)


def js_tokens(text):
    """token words of a JavaScript text (strings are cooked for the simple escapes; anything unusual becomes O:...)"""
    out = []
    i, n = 0, len(text)
    while i < n:
        ch = text[i]
        if ch in " \t\n\r\x0b\x0c\u00a0\ufeff\u2028\u2029":
            i += 1
            continue
        if text.startswith("//", i):
            while i < n and text[i] not in "\n\r\u2028\u2029":
                i += 1
            continue
        if text.startswith("/*", i):
            j = text.find("*/", i + 2)
            i = n if j < 0 else j + 2
            continue
        if ID_START.match(ch):
            j = i + 1
            while j < n and ID_PART.match(text[j]):
                j += 1
            w = text[i:j]
            if w in ("true", "false"):
                out.append("B:" + w)
            elif w == "null":
                out.append("NULL")
            elif w in KEYWORDS:
                out.append("K:" + w)
            elif w in ALL_KEYWORDS:
                out.append("O:" + w)
            else:
                out.append("I:" + w)
            i = j
            continue
        if ch.isdigit():
            j = i + 1
            while j < n and (text[j].isalnum() or text[j] in "._"):
                j += 1
            w = text[i:j]
            if w.isdigit() and (w == "0" or not w.startswith("0")) and int(w) < (1 << 53):
                out.append("N:" + w)
            else:
                out.append("O:" + wire_escape(w))
            i = j
            continue
        if ch in "\"'":
            j = i + 1
            val = []
            ok = True
            while j < n and text[j] != ch:
                if text[j] == "\\" and j + 1 < n:
                    e = text[j + 1]
                    simple_esc = {"n": "\n", "t": "\t", "r": "\r", "b": "\b", "f": "\f", "v": "\x0b", "\\": "\\", "'": "'", '"': '"'}
                    if e in simple_esc:
                        val.append(simple_esc[e])
                        j += 2
                    elif e == "u" and re.match(r"[0-9a-fA-F]{4}", text[j + 2:j + 6]):
                        val.append(chr(int(text[j + 2:j + 6], 16)))
                        j += 6
                    elif e == "x" and re.match(r"[0-9a-fA-F]{2}", text[j + 2:j + 4]):
                        val.append(chr(int(text[j + 2:j + 4], 16)))
                        j += 4
                    else:
                        ok = False
                        val.append(e)
                        j += 2
                elif text[j] in "\n\r":
                    ok = False
                    break
                else:
                    val.append(text[j])
                    j += 1
            i = j + 1
            if ok:
                out.append('S:"' + wire_escape("".join(val)) + '"')
            else:
                out.append("O:badstring")
            continue
        if ch == "`":
            j = i + 1
            while j < n and text[j] != "`":
                j += 2 if text[j] == "\\" else 1
            out.append("O:template")
            i = j + 1
            continue
        for p in PUNCTS:
            if text.startswith(p, i):
                if p in ("?.", "#", "@"):
                    out.append("O:" + p)
                else:
                    out.append(p)
                i += len(p)
                break
        else:
            out.append("O:" + wire_escape(ch))
            i += 1
    return out


def model_words(prog):
    """the token words of the generator's own printing (= what the model printer must produce)"""
    return js_tokens(to_js(prog))


# ------------------------------------------------------------------------------------------------ generator

IDS = ["a", "b", "c", "d", "o", "f", "g", "x", "y", "k", "arr", "obj", "fn", "n", "s", "print", "undefined", "NaN"]
PROPS = ["x", "y", "z", "length", "a", "b", "p", "q", "constructor", "valueOf"]
STRS = ["", "a", "b c", "use strict", "x1", "0", "str", "in", "  ", "k-1", "%d", "A_b$"]
LABELS = ["l1", "l2", "outer"]


class Gen:
    def __init__(self, rng, size=30, depth=5):
        self.rng = rng
        self.budget = size
        self.depth = depth
        self.feats = set()
        self.counter = 0

    def pick(self, xs):
        return xs[self.rng.randrange(len(xs))]

    def ident(self):
        return ("EId", self.pick(IDS))

    def leaf(self):
        r = self.rng.random()
        if r < 0.45:
            return self.ident()
        if r < 0.65:
            return ("ENum", self.pick([0, 1, 2, 3, 7, 10, 42, 255, 1000, 65536, 2147483647, 2147483648, 4294967296, 9007199254740991]))
        if r < 0.8:
            return ("EStr", self.pick(STRS))
        if r < 0.88:
            return ("EBool", self.rng.random() < 0.5)
        if r < 0.94:
            return ("ENull",)
        return ("EThis",)

    def target(self, d):
        r = self.rng.random()
        if r < 0.5 or d <= 0:
            return self.ident()
        if r < 0.8:
            return ("EMember", self.expr(d - 1, postfix=True), self.pick(PROPS))
        return ("EIndex", self.expr(d - 1, postfix=True), self.expr(d - 1))

    def expr(self, d, postfix=False):
        self.budget -= 1
        if d <= 0 or self.budget <= 0:
            return self.leaf()
        r = self.rng.random()
        if postfix:
            r = 0.5 + r * 0.25
        self.feats.add("expr")
        if r < 0.14:
            return self.leaf()
        if r < 0.42:
            op = self.pick(list(BINOPS))
            self.feats.add("bin:" + op)
            return ("EBin", op, self.expr(d - 1), self.expr(d - 1))
        if r < 0.48:
            self.feats.add("unary")
            return ("EUnary", self.pick(list(UNOPS)), self.expr(d - 1))
        if r < 0.52:
            self.feats.add("update")
            return ("EUpdate", self.rng.random() < 0.5, self.rng.random() < 0.5, self.target(d - 1))
        if r < 0.58:
            self.feats.add("member")
            return ("EMember", self.expr(d - 1, postfix=True), self.pick(PROPS))
        if r < 0.62:
            self.feats.add("index")
            return ("EIndex", self.expr(d - 1, postfix=True), self.expr(d - 1))
        if r < 0.70:
            self.feats.add("call")
            return ("ECall", self.expr(d - 1, postfix=True), [self.expr(d - 1) for _ in range(self.rng.randrange(0, 3))])
        if r < 0.74:
            self.feats.add("new")
            return ("ENew", self.expr(d - 1, postfix=True), [self.expr(d - 1) for _ in range(self.rng.randrange(0, 3))])
        if r < 0.79:
            self.feats.add("cond")
            return ("ECond", self.expr(d - 1), self.expr(d - 1), self.expr(d - 1))
        if r < 0.85:
            self.feats.add("assign")
            op = None if self.rng.random() < 0.6 else self.pick(ASSIGNOPS)
            return ("EAssign", op, self.target(d - 1), self.expr(d - 1))
        if r < 0.88:
            self.feats.add("paren")
            return ("EParen", self.expr(d - 1))
        if r < 0.91:
            self.feats.add("array")
            return ("EArray", [None if self.rng.random() < 0.15 else self.expr(d - 1) for _ in range(self.rng.randrange(0, 4))])
        if r < 0.94:
            self.feats.add("object")
            ps = []
            for _ in range(self.rng.randrange(0, 4)):
                q = self.rng.random()
                if q < 0.25:
                    ps.append(("PShort", self.pick(IDS[:12])))
                elif q < 0.8:
                    ps.append(("PKV", self.pick(PROPS), self.expr(d - 1)))
                else:
                    ps.append(("PComputed", self.expr(d - 1), self.expr(d - 1)))
            return ("EObject", ps)
        if r < 0.97:
            self.feats.add("arrow")
            return ("EArrow", self.params(), self.body(d - 1))
        self.feats.add("funcexpr")
        return ("EFunc", self.pick([None, None, "fe", "g2"]), self.params(dups=True), self.body(d - 1))

    def params(self, dups=False):
        k = self.rng.randrange(0, 4)
        pool = ["p", "q", "r", "x", "y"]
        self.rng.shuffle(pool)
        return pool[:k]

    def fresh(self, prefix):
        self.counter += 1
        return "%s%d" % (prefix, self.counter)

    def body(self, d):
        return [self.stmt(d, True, CX0) for _ in range(self.rng.randrange(0, 3))]

    def decls(self, d, need_init=False, lexical=False):
        out = []
        for _ in range(self.rng.randrange(1, 3)):
            name = self.fresh("l") if lexical else self.pick(["va", "vb", "vc", "i", "j"])
            out.append((name, self.expr(d - 1) if (need_init or self.rng.random() < 0.7) else None))
        return out

    def loop(self, d, aret, cx):
        """a loop statement (cx already says we are inside the labels that apply to it)"""
        inner = dict(cx, loop=True)
        r = self.rng.random()
        if r < 0.3:
            self.feats.add("while")
            return ("SWhile", self.expr(d - 1), self.stmt(d - 1, aret, inner))
        if r < 0.45:
            self.feats.add("dowhile")
            return ("SDoWhile", self.stmt(d - 1, aret, inner), self.expr(d - 1))
        if r < 0.75:
            self.feats.add("for")
            q = self.rng.random()
            if q < 0.2:
                init = ("FINone",)
            elif q < 0.5:
                init = ("FIExpr", self.expr(d - 1))
            elif q < 0.75:
                init = ("FIVar", self.decls(d))
            elif q < 0.9:
                init = ("FILet", self.decls(d, lexical=True))
            else:
                init = ("FIConst", self.decls(d, True, lexical=True))
            return ("SFor", init, self.expr(d - 1) if self.rng.random() < 0.7 else None,
                    self.expr(d - 1) if self.rng.random() < 0.7 else None, self.stmt(d - 1, aret, inner))
        self.feats.add("forin/of")
        q = self.rng.random()
        if q < 0.25:
            h = ("FHVar", self.pick(["va", "vb", "k"]))
        elif q < 0.6:
            h = (self.pick(["FHLet", "FHConst"]), self.fresh("l"))
        else:
            h = ("FHTarget", self.target(d - 1))
        return (self.pick(["SForIn", "SForOf"]), h, self.expr(d - 1), self.stmt(d - 1, aret, inner))

    def stmt(self, d, aret, cx):
        self.budget -= 1
        r = self.rng.random()
        if d <= 0 or self.budget <= 0:
            r = r * 0.3
        if r < 0.3:
            return ("SExpr", self.expr(min(d, 4)))
        self.feats.add("stmt")
        if r < 0.36:
            self.feats.add("var")
            return ("SVar", self.decls(d))
        if r < 0.42:
            self.feats.add("let/const")
            if self.rng.random() < 0.5:
                return ("SLet", self.decls(d, lexical=True))
            return ("SConst", self.decls(d, True, lexical=True))
        if r < 0.50:
            self.feats.add("if")
            return ("SIf", self.expr(d - 1), self.stmt(d - 1, aret, cx), self.stmt(d - 1, aret, cx) if self.rng.random() < 0.5 else None)
        if r < 0.70:
            return self.loop(d, aret, cx)
        if r < 0.74:
            self.feats.add("switch")
            cs = []
            inner = dict(cx, sw=True)
            for _ in range(self.rng.randrange(0, 4)):
                cs.append((None if self.rng.random() < 0.25 else self.expr(d - 1), [self.stmt(d - 1, aret, inner) for _ in range(self.rng.randrange(0, 3))]))
            return ("SSwitch", self.expr(d - 1), cs)
        if r < 0.78:
            self.feats.add("block")
            return ("SBlock", [self.stmt(d - 1, aret, cx) for _ in range(self.rng.randrange(0, 4))])
        if r < 0.81:
            self.feats.add("label")
            free = [l for l in LABELS if l not in [x for x, _ in cx["labels"]]]
            if not free:
                return ("SEmpty",)
            name = self.pick(free)
            if self.rng.random() < 0.7:
                return ("SLabelled", name, self.loop(d, aret, dict(cx, labels=cx["labels"] + ((name, True),))))
            return ("SLabelled", name, self.stmt(d - 1, aret, dict(cx, labels=cx["labels"] + ((name, False),))))
        if r < 0.84:
            self.feats.add("break/continue")
            opts = []
            if cx["loop"] or cx["sw"]:
                opts.append(("SBreak", None))
            if cx["loop"]:
                opts.append(("SContinue", None))
            for name, isloop in cx["labels"]:
                opts.append(("SBreak", name))
                if isloop and cx["loop"]:
                    opts.append(("SContinue", name))
            return self.pick(opts) if opts else ("SEmpty",)
        if r < 0.88:
            self.feats.add("return")
            return ("SReturn", self.expr(d - 1) if self.rng.random() < 0.7 else None)
        if r < 0.91:
            self.feats.add("throw")
            return ("SThrow", self.expr(d - 1))
        if r < 0.95:
            self.feats.add("try")
            c = None if self.rng.random() < 0.3 else (self.pick([None, self.fresh("e")]), [self.stmt(d - 1, aret, cx) for _ in range(self.rng.randrange(0, 3))])
            f = None if (c is not None and self.rng.random() < 0.6) else [self.stmt(d - 1, aret, cx) for _ in range(self.rng.randrange(0, 2))]
            return ("STry", [self.stmt(d - 1, aret, cx) for _ in range(self.rng.randrange(0, 3))], c, f)
        if r < 0.98:
            self.feats.add("fundecl")
            return ("SFunDecl", self.fresh("fd"), self.params(), self.body(d - 1))
        return self.pick([("SEmpty",), ("SDebugger",)])

    def program(self, nstmts):
        return [self.stmt(self.depth, False, CX0) for _ in range(nstmts)]


CX0 = {"loop": False, "sw": False, "labels": ()}


def add_parens(e, rng, p):
    """explicit-paren variant: wrap random sub-expressions in redundant parentheses"""
    def go(x):
        if not isinstance(x, tuple):
            if isinstance(x, list):
                return [go(y) for y in x]
            return x
        y = tuple(go(z) for z in x)
        if y and isinstance(y[0], str) and y[0].startswith("E") and y[0] not in ("EParen",) and rng.random() < p:
            return ("EParen", y)
        return y
    return go(e)


def paren_variant(prog, rng, p=0.2):
    """redundant parentheses in expression positions only (never around assignment/update/for-in targets, where
    the parser drops them)"""
    def e_(x, protect=False):
        t = x[0]
        def w(y):
            return ("EParen", y) if (not protect and rng.random() < p) else y
        if t in ("EThis", "EId", "ENum", "EStr", "EBool", "ENull"):
            return w(x)
        if t == "EArray":
            return w(("EArray", [None if y is None else e_(y) for y in x[1]]))
        if t == "EObject":
            ps = []
            for q in x[1]:
                if q[0] == "PShort":
                    ps.append(q)
                elif q[0] == "PKV":
                    ps.append(("PKV", q[1], e_(q[2])))
                else:
                    ps.append(("PComputed", e_(q[1]), e_(q[2])))
            return w(("EObject", ps))
        if t == "EParen":
            return ("EParen", e_(x[1]))
        if t == "EFunc":
            return w(("EFunc", x[1], x[2], [s_(s) for s in x[3]]))
        if t == "EArrow":
            return w(("EArrow", x[1], [s_(s) for s in x[2]]))
        if t == "EMember":
            return w(("EMember", e_(x[1]), x[2]))
        if t == "EIndex":
            return w(("EIndex", e_(x[1]), e_(x[2])))
        if t in ("ECall", "ENew"):
            return w((t, e_(x[1]), [e_(a) for a in x[2]]))
        if t == "EUpdate":
            return w(("EUpdate", x[1], x[2], e_(x[3], True)))
        if t == "EUnary":
            return w(("EUnary", x[1], e_(x[2])))
        if t == "EBin":
            return w(("EBin", x[1], e_(x[2]), e_(x[3])))
        if t == "ECond":
            return w(("ECond", e_(x[1]), e_(x[2]), e_(x[3])))
        if t == "EAssign":
            return w(("EAssign", x[1], e_(x[2], True), e_(x[3])))
        raise ValueError(x)

    def ds_(ds):
        return [(a, None if i is None else e_(i)) for a, i in ds]

    def s_(s):
        t = s[0]
        if t == "SBlock":
            return ("SBlock", [s_(x) for x in s[1]])
        if t in ("SVar", "SLet", "SConst"):
            return (t, ds_(s[1]))
        if t == "SExpr":
            return ("SExpr", e_(s[1]))
        if t == "SIf":
            return ("SIf", e_(s[1]), s_(s[2]), None if s[3] is None else s_(s[3]))
        if t == "SDoWhile":
            return ("SDoWhile", s_(s[1]), e_(s[2]))
        if t == "SWhile":
            return ("SWhile", e_(s[1]), s_(s[2]))
        if t == "SFor":
            i = s[1]
            if i[0] == "FIExpr":
                i = ("FIExpr", e_(i[1]))
            elif i[0] != "FINone":
                i = (i[0], ds_(i[1]))
            return ("SFor", i, None if s[2] is None else e_(s[2]), None if s[3] is None else e_(s[3]), s_(s[4]))
        if t in ("SForIn", "SForOf"):
            return (t, s[1], e_(s[2]), s_(s[3]))
        if t == "SSwitch":
            return ("SSwitch", e_(s[1]), [(None if c is None else e_(c), [s_(x) for x in b]) for c, b in s[2]])
        if t == "SReturn":
            return ("SReturn", None if s[1] is None else e_(s[1]))
        if t == "SLabelled":
            return ("SLabelled", s[1], s_(s[2]))
        if t == "SThrow":
            return ("SThrow", e_(s[1]))
        if t == "STry":
            return ("STry", [s_(x) for x in s[1]], None if s[2] is None else (s[2][0], [s_(x) for x in s[2][1]]),
                    None if s[3] is None else [s_(x) for x in s[3]])
        if t == "SFunDecl":
            return ("SFunDecl", s[1], s[2], [s_(x) for x in s[3]])
        return s
    return [s_(s) for s in prog]


def gen_model_program(rng, size=30, depth=5, nstmts=None, parens=0.0):
    g = Gen(rng, size, depth)
    raw = g.program(nstmts if nstmts is not None else rng.randrange(1, 5))
    if parens > 0:
        raw = paren_variant(raw, rng, parens)
    return shape_prog(raw), sorted(g.feats)


def observe(prog, rng):
    """make a generated program observable: every top-level statement runs inside try/catch (so one TypeError does
    not end the run) and many expression statements print their value; the result is again a model program"""
    out = []
    n = 0
    for s in prog:
        if s[0] == "SExpr" and rng.random() < 0.7:
            s = ("SExpr", ("ECall", ("EId", "print"), [("EStr", "v%d" % n), at(s[1], 1)]))
        if s[0] in ("SFunDecl", "SVar"):
            out.append(s)
        else:
            n += 1
            handler = [("SExpr", ("ECall", ("EId", "print"), [("EStr", "E%d" % n), ("EMember", ("EId", "ex"), "name")]))]
            out.append(("STry", [s], ("ex", handler), None))
    out.append(("SExpr", ("ECall", ("EId", "print"), [("EStr", "end"), ("EUnary", "UTypeof", ("EId", "va")), ("EId", "t"), ("EId", "n")])))
    return out


# a prelude that gives the identifier pool values, so that generated programs do more than throw ReferenceError
PRELUDE = (
    "var a = 1, b = 2, c = 'c', d = {x: 1, y: {z: 2}, length: 3}, o = {x: 5, y: [1, 2], valueOf: function () { print('vo'); return 4; }};"
    "var f = function (p) { print('f', p); return p; }, g = function () { print('g'); return g; }, x = 10, y = -3, k = 'x';"
    "var arr = [3, 1, 2], obj = {a: {b: {p: 1}}, q: null}, fn = function (p, q) { return p + q; }, n = 0, s = 'str';"
    "var t = 0, ret = 0; Function.prototype.toString = function () { return 'function'; };")


# ------------------------------------------------------------------------------------------------ mutants

MUT_POOL = ["(", ")", "[", "]", "{", "}", ";", ",", ".", "=", "=>", "?", ":", "+", "-", "*", "/", "**", "++", "--", "!", "~", "&&",
            "||", "??", "in", "of", "instanceof", "new", "delete", "typeof", "void", "function", "return", "if", "else", "for",
            "while", "do", "var", "let", "const", "break", "continue", "case", "default", "switch", "try", "catch", "finally",
            "throw", "this", "null", "true", "a", "b", "1", "0", '"s"', "...", "?.", "async", "await", "yield", "class", "`t`",
            "/re/g", "#p", "=", "+=", ">>>=", "<", ">", "<=", "debugger", "with", "import", "super", "static", "get", "set"]


def text_words(text):
    """coarse re-tokenisation of a JS text into substrings (for token-level mutation)"""
    out = []
    i, n = 0, len(text)
    while i < n:
        ch = text[i]
        if ch.isspace():
            i += 1
            continue
        if ID_START.match(ch) or ch.isdigit():
            j = i + 1
            while j < n and (ID_PART.match(text[j]) or text[j] == "."
                             and ch.isdigit()):
                j += 1
            out.append(text[i:j])
            i = j
            continue
        if ch in "\"'`":
            j = i + 1
            while j < n and text[j] != ch:
                j += 2 if text[j] == "\\" else 1
            out.append(text[i:j + 1])
            i = j + 1
            continue
        for p in PUNCTS:
            if text.startswith(p, i):
                out.append(p)
                i += len(p)
                break
        else:
            out.append(ch)
            i += 1
    return out


SOFT_OPS = ["+", "-", "*", "/", "%", "**", "<<", ">>", ">>>", "<", ">", "<=", ">=", "==", "!=", "===", "!==", "&", "|", "^", "&&", "||",
            "??", "in", "instanceof", ",", "=", "+=", "-=", "*=", "**=", "&&=", "||=", "??=", ">>>=", "?", ":"]
SOFT_PREFIX = ["-", "+", "!", "~", "typeof", "void", "delete", "++", "--", "new", "(", ""]
SOFT_ATOMS = ["a", "b", "x", "1", "0", '"s"', "this", "null", "true", "f()", "a.b", "[1]", "{}", "(a, b)", "function() {}", "() => a",
              "(x) => { return x; }", "new f", "a++", "b--", "o[k]"]


def soft_mutate(text, rng):
    """mutations that often keep the text well-formed but change how it must be parsed: operator for operator, atom for
    atom, an extra prefix operator, dropped or added parentheses"""
    ws = text_words(text)
    if not ws:
        return rng.choice(SOFT_ATOMS)
    for _ in range(rng.choice([1, 1, 1, 2, 3])):
        ws = [w for w in ws if w]
        if not ws:
            return rng.choice(SOFT_ATOMS)
        k = rng.randrange(len(ws))
        w = ws[k]
        r = rng.random()
        if w in SOFT_OPS and r < 0.8:
            ws[k] = rng.choice(SOFT_OPS)
        elif (ID_START.match(w[0]) or w[0].isdigit() or w[0] in "\"'") and w not in KEYWORDS and r < 0.5:
            ws[k] = rng.choice(SOFT_ATOMS)
        elif (ID_START.match(w[0]) or w[0].isdigit() or w[0] == "(") and r < 0.8:
            ws.insert(k, rng.choice(SOFT_PREFIX))
        elif w in ("(", ")") and r < 0.9:
            # drop a parenthesis pair (the matching one if found)
            if w == "(":
                depth = 0
                for j in range(k, len(ws)):
                    depth += ws[j] == "("
                    depth -= ws[j] == ")"
                    if depth == 0:
                        del ws[j]
                        break
                del ws[k]
        else:
            ws[k] = rng.choice(SOFT_OPS + SOFT_ATOMS)
    return Layout().join([w for w in ws if w]) + "\n"


def mutate(text, rng, nmut=None):
    if nmut is None and rng.random() < 0.6:
        return soft_mutate(text, rng)
    ws = text_words(text)
    if not ws:
        return rng.choice(MUT_POOL)
    for _ in range(nmut if nmut is not None else rng.randrange(1, 4)):
        k = rng.randrange(len(ws)) if ws else 0
        r = rng.random()
        if r < 0.3 and ws:
            del ws[k]
        elif r < 0.55:
            ws.insert(k, rng.choice(MUT_POOL))
        elif r < 0.8 and ws:
            ws[k] = rng.choice(MUT_POOL)
        elif r < 0.9 and len(ws) > 1:
            j = rng.randrange(len(ws))
            ws[k], ws[j] = ws[j], ws[k]
        elif ws:
            ws.insert(k, ws[k])
        if not ws:
            ws = [rng.choice(MUT_POOL)]
    return Layout().join(ws) + "\n"


# ------------------------------------------------------------------------------------------------ repo snippets

def rust_unescape(s):
    out = []
    i = 0
    while i < len(s):
        c = s[i]
        if c == "\\" and i + 1 < len(s):
            n = s[i + 1]
            m = {"n": "\n", "t": "\t", "r": "\r", "0": "\0", "\\": "\\", '"': '"', "'": "'"}
            if n in m:
                out.append(m[n])
                i += 2
            elif n == "x" and i + 3 < len(s):
                try:
                    out.append(chr(int(s[i + 2:i + 4], 16)))
                except ValueError:
                    pass
                i += 4
            elif n == "u" and i + 2 < len(s) and s[i + 2] == "{":
                j = s.find("}", i)
                try:
                    out.append(chr(int(s[i + 3:j], 16)))
                except ValueError:
                    pass
                i = j + 1 if j > 0 else len(s)
            elif n == "\n":
                i += 2
                while i < len(s) and s[i] in " \t\n":
                    i += 1
            else:
                out.append(n)
                i += 2
        else:
            out.append(c)
            i += 1
    return "".join(out)


def repo_snippets(root):
    """every JS file and every string literal of the Rust test sources under root: (origin, text), deduplicated,
    in a deterministic order"""
    seen = set()
    res = []

    def add(p, t):
        if t not in seen and len(t) < 400000 and "\ud800" not in t:
            seen.add(t)
            res.append((os.path.relpath(p, root), t))
    for d, dirs, fs in sorted(os.walk(root)):
        dirs.sort()
        if "/target" in d or "/.git" in d or "/node_modules" in d:
            continue
        for f in sorted(fs):
            p = os.path.join(d, f)
            if f.endswith(".js") or f.endswith(".mjs"):
                try:
                    add(p, open(p, encoding="utf8").read())
                except (OSError, UnicodeDecodeError):
                    continue
            elif f.endswith(".rs") and "test" in p:
                try:
                    src = open(p, encoding="utf8").read()
                except (OSError, UnicodeDecodeError):
                    continue
                for m in re.finditer(r'r(#+)"(.*?)"\1', src, re.S):
                    add(p, m.group(2))
                for m in re.finditer(r'r"([^"]*)"', src):
                    add(p, m.group(1))
                for m in re.finditer(r'(?<![r#b\'])"((?:[^"\\]|\\.)*)"', src, re.S):
                    t = rust_unescape(m.group(1))
                    if len(t) >= 3:
                        add(p, t)
    return res
