"""Writes the hand-written seed corpus of C01 (corpus/C01/d*.json): one minimal program per deviation listed in DESIGN.md
section 5 (#1-#7, #20, #21) plus agreeing smoke programs.  Shrunk failures found by the check are added next to them by
hand (same format: {"name", "note", "prog"}).  Run: python3 gen/c01_corpus.py"""
import json
import os
import sys

HERE = os.path.dirname(os.path.abspath(__file__))
sys.path.insert(0, HERE)
sys.path.insert(0, os.path.join(os.path.dirname(HERE), "tools"))
from jsast import u, num, s, ident, call, pr, member, func, prog, to_js, encode_prog  # noqa: E402


def pid(n):
    return ("PId", u(n))


def let(n, e, k="KLet"):
    return ("SDecl", k, [(pid(n), e)])


def main_prog(body, funcs=(), strict=False):
    fs = list(funcs)
    fs.append(func(name="main", kind="FNormal", body=body, strict=strict))
    p = prog([("SFunDecl", u("main"), len(fs) - 1), ("SExpr", call(ident("main")))], funcs=fs, strict=strict)
    p["meta"] = {"form": "func", "hermetic": True, "features": [], "early_error": False, "main_call": 1}
    return p


def script(body, funcs=(), strict=False):
    p = prog(body, funcs=list(funcs), strict=strict)
    p["meta"] = {"form": "script", "hermetic": False, "features": [], "early_error": False, "main_call": None}
    return p


def keys_join(n):
    return call(member(call(member(ident("Object"), "keys"), ident(n)), "join"))


CASES = []


def case(name, note, p):
    CASES.append({"name": name, "note": note, "prog": p})


x = ident("x")
case("d01-operand-clobber", "DESIGN 5 #1: x + (x = 5) in a function (spec 6)",
     main_prog([let("x", num(1)), pr(("EBinary", "BAdd", x, ("EAssign", pid("x"), num(5))), x)]))
case("d02-postfix-string", "DESIGN 5 #2: q = p++ on a string local (spec: q is the number 5)",
     main_prog([let("p", s("5")), let("q", ("EUpdate", False, True, ident("p"))), pr(ident("q"), ("EUnary", "UTypeof", ident("q")), ident("p"))]))
case("d03-logassign-operand", "DESIGN 5 #3: v = 'x' + (i ??= 3) with global i = 1 (spec: v = 'x1', i = 1)",
     script([("SDecl", "KVar", [(pid("i"), num(1))]), ("SDecl", "KVar", [(pid("v"), None)]),
             ("SExpr", ("EAssign", pid("v"), ("EBinary", "BAdd", s("x"), ("ELogAssign", "LCoalesce", ident("i"), num(3))))), pr(ident("v"), ident("i"))]))
case("d04-int-min-rem", "DESIGN 5 #4: a % b with a = -2147483648, b = -1, non-constant (spec -0)",
     main_prog([let("a", num(-2147483648)), let("b", num(-1)), pr(("EBinary", "BMod", ident("a"), ident("b"))), pr(("EBinary", "BDiv", num(1), ("EBinary", "BMod", ident("a"), ident("b"))))]))
case("d05-dup-let-function-body", "DESIGN 5 #5: duplicate let in a function body is an early SyntaxError",
     script([pr(s("ran"))] + [("SFunDecl", u("f"), 0)], funcs=[func(name="f", body=[let("a", num(1)), let("a", num(2))])]))
case("d06-object-rest-nested", "DESIGN 5 #6: var {a:{x}, ...r} = {a:{x:1}, b:2}  (spec: r has only b)",
     script([("SDecl", "KVar", [(("PObj", [(("PKStr", u("a")), ("PObj", [(("PKStr", u("x")), pid("x"), None)], None), None)], pid("r")),
                                 ("EObject", [("PInit", ("PKStr", u("a")), ("EObject", [("PInit", ("PKStr", u("x")), num(1))])), ("PInit", ("PKStr", u("b")), num(2))]))]),
             pr(keys_join("r"), x)]))
case("d07-switch-tdz", "DESIGN 5 #7: let read through another switch case before initialisation (spec ReferenceError)",
     main_prog([let("o", num(7)), ("STry", [("SSwitch", num(1), [(num(0), [let("a", num(1)), pr(ident("a"))]), (num(1), [pr(s("got"), ident("a"))])])],
                                   (pid("e"), [pr(s("caught"), member(ident("e"), "name"))]), None), pr(ident("o"))]))
case("d20-param-scope-body-var", "DESIGN 5 #20: function f(a, b = () => a) { var a = 5; return b() + ',' + a }  f(1)  (spec '1,5')",
     script([("SFunDecl", u("f"), 1), ("STry", [pr(call(ident("f"), num(1)))], (pid("e"), [pr(s("caught"), member(ident("e"), "name"))]), None)],
            funcs=[func(kind="FArrow", expr_body=ident("a")),
                   func(name="f", params=[(pid("a"), None), (pid("b"), ("EFunc", 0))],
                        body=[("SDecl", "KVar", [(pid("a"), num(5))]), ("SReturn", ("EBinary", "BAdd", ("EBinary", "BAdd", call(ident("b")), s(",")), ident("a")))])]))
case("d21-let-var-function-body", "DESIGN 5 #21: let q; var q; in a function body is an early SyntaxError",
     script([pr(s("ran")), ("SFunDecl", u("f"), 0)], funcs=[func(name="f", body=[let("q", num(1)), ("SDecl", "KVar", [(pid("q"), num(2))])])]))
case("n01-tdz-assign-before-init", "found by this check: a store to a register-resident let before its declaration does not throw (spec ReferenceError)",
     script([("SBlock", [("STry", [("SExpr", ("EAssign", pid("z"), num(1))), pr(s("no error"))], (pid("e"), [pr(s("caught"), member(ident("e"), "name"))]), None),
                         let("z", num(10)), pr(ident("z"))])]))
case("n02-tdz-const-assign-typeerror", "found by this check (and C04): a store to a const in its TDZ raises TypeError instead of ReferenceError",
     main_prog([("STry", [("SExpr", ("EAssign", pid("c"), num(1))), pr(s("no error"))], (pid("e"), [pr(s("caught"), member(ident("e"), "name"))]), None),
                let("c", num(2), "KConst"), pr(ident("c"))]))
case("n03-exponent-nan", "a NaN exponent gives NaN for every base (Number::exponentiate step 1); powf(1, NaN) is 1",
     main_prog([let("e", num(float("nan"))), pr(("EBinary", "BExp", num(1), ident("e")), ("EBinary", "BExp", num(-1), ident("e")), ("EBinary", "BExp", num(2), ident("e")))]))
case("n04-completion-lost-after-declaration", "found by this check: 7; var w = f(); completes with undefined (spec: 7 — a declaration has an empty completion)",
     script([("SFunDecl", u("f"), 0), ("SExpr", num(7)), ("SDecl", "KVar", [(pid("w"), call(ident("f")))])], funcs=[func(name="f", body=[])]))
case("n05-int-div-negative-zero", "found by this check: the VM fast path of `/` returns +0 for 0 / negative integer (spec -0); JsValue::div was fixed, div_fast was not",
     main_prog([let("a", num(0)), let("b", num(-1)), pr(("EBinary", "BDiv", num(1), ("EBinary", "BDiv", ident("a"), ident("b"))))]))
case("n06-break-through-nested-for-of", "found by this check: a labelled break out of an inner for-of to a label inside an outer for-of also ends the outer loop",
     script([("SForOf", ("FHDecl", "KLet", pid("z")), ("EArray", [("AElem", num(1)), ("AElem", num(2))]),
              ("SBlock", [("SLabel", u("L"), ("SBlock", [("SForOf", ("FHDecl", "KConst", pid("j")), ("EArray", [("AElem", num(0)), ("AElem", num(1))]),
                                                          ("SBlock", [("SIf", ("EBinary", "BSEq", ident("j"), num(1)), ("SBreak", u("L")), None)]))])),
                          pr(s("after"), ident("z"))]))]))
case("n07-throw-through-for-in-in-for-of", "found by this check: an exception thrown inside a for-in nested in a for-of does not close the outer iterator (the generator's finally does not run)",
     script([("SFunDecl", u("g"), 0),
             ("STry", [("SForOf", ("FHDecl", "KLet", pid("d")), call(ident("g")),
                        ("SBlock", [("SForIn", ("FHDecl", "KConst", pid("c")), ("EObject", [("PInit", ("PKStr", u("x")), num(1))]),
                                     ("SBlock", [("SThrow", ("ENew", ident("TypeError"), [("Arg", s("x"))]))]))]))],
              (pid("e"), [pr(member(ident("e"), "name"))]), None)],
            funcs=[func(name="g", kind="FGenerator", body=[("STry", [("SYield", None, None, num(1), False)], None, [pr(s("gf"))])])]))
case("n08-with-assignment-to-outer-const-name", "found by this check: inside `with (o)` an assignment to a name that o has but that is also an outer const is rejected statically (TypeError) instead of setting o's property",
     script([let("o", ("EObject", [("PInit", ("PKStr", u("a")), s("a"))]), "KConst"),
             ("STry", [("SWith", ident("o"), ("SBlock", [("SExpr", ("EAssign", pid("a"), num(-1))), pr(s("ok"), member(ident("o"), "a"))]))],
              (pid("e"), [pr(s("W"), member(ident("e"), "name"))]), None),
             let("a", num(1), "KConst")]))
case("n09-with-assignment-to-for-in-const-head", "same class as n08 with the const coming from a for-in head (reported by the default-seed run)",
     script([("SForIn", ("FHDecl", "KConst", pid("a")), ("EArray", [("AElem", num(0)), ("AElem", num(1))]),
              ("SBlock", [("STry", [("SWith", ("EObject", [("PInit", ("PKStr", u("a")), ("EBool", True)), ("PInit", ("PKStr", u("y")), num(3))]),
                                     ("SBlock", [pr(ident("a")), ("SExpr", ("EAssign", pid("a"), num(-1))), pr(s("ok"), ident("a"))]))],
                           (pid("e"), [pr(s("W"), member(ident("e"), "name"))]), None),
                          pr(s("after"), ident("a"))]))]))
case("n10-completion-value-stale-kept", "found by the thorough run: inside a loop body whose value is observed, a nested switch stores its value and a following `if (true) {}` (completion undefined) does not reset it",
     script([("SFor", ("FIDecl", "KVar", [(pid("z"), num(0))]), ("EBinary", "BLt", ident("z"), num(1)), ("EUpdate", False, True, ident("z")),
              ("SBlock", [("SSwitch", num(5), [(num(5), [("SExpr", num(5))])]), ("SIf", ("EBool", True), ("SBlock", []), None)]))]))
# agreeing smoke programs
case("s01-smoke", "let / for / try / finally / throw / print / completion value",
     script([let("x", num(1)),
             ("SFor", ("FIDecl", "KLet", [(pid("i"), num(0))]), ("EBinary", "BLt", ident("i"), num(3)), ("EUpdate", False, True, ident("i")),
              ("SBlock", [pr(ident("i"), ("EBinary", "BAdd", x, ident("i")))])),
             ("STry", [("SThrow", ("ENew", ident("TypeError"), [("Arg", s("boo"))]))], (pid("e"), [pr(member(ident("e"), "message"))]), [pr(s("fin"))]),
             ("SExpr", ("EBinary", "BAdd", x, s("a")))]))
case("s02-generator-finally", "generator return() runs finally; for-of closes the iterator on break",
     script([("SFunDecl", u("g"), 0),
             ("SForOf", ("FHDecl", "KConst", pid("v")), call(ident("g")), ("SBlock", [pr(ident("v")), ("SIf", ("EBinary", "BSEq", ident("v"), num(2)), ("SBreak", None), None)])),
             pr(s("end"))],
            funcs=[func(name="g", kind="FGenerator", body=[("STry", [("SYield", None, None, num(1), False), ("SYield", None, None, num(2), False), ("SYield", None, None, num(3), False)],
                                                           None, [pr(s("cleanup"))])])]))

# regression sentinels for CreatePerIterationEnvironment (they agree on the unchanged tree)
def arrow(params, e):
    return func(kind="FArrow", params=[(pid(x), None) for x in params], expr_body=e)


I = ident("i")
case("s03-for-let-initializer-closures", "closures created in a for-let initializer see the initializer's environment, not the first iteration's copy (ForBodyEvaluation step 2)",
     script([("SFor", ("FIDecl", "KLet", [(pid("i"), num(0)), (pid("get"), ("EFunc", 0)), (pid("set"), ("EFunc", 1))]),
              ("EBinary", "BLt", I, num(3)), ("EUpdate", False, True, I),
              ("SBlock", [("SExpr", call(ident("set"), ("EBinary", "BAdd", I, num(10)))), pr(I, call(ident("get")))]))],
            funcs=[arrow([], I), arrow(["v"], ("EAssign", pid("i"), ident("v")))]))
case("s04-for-let-initializer-closure-in-function", "the same inside a function (register-resident candidates), with per-iteration closures and a body write",
     main_prog([let("fs", ("EArray", []), "KConst"),
                ("SFor", ("FIDecl", "KLet", [(pid("i"), num(0)), (pid("get"), ("EFunc", 0))]), ("EBinary", "BLt", I, num(3)), ("EUpdate", False, True, I),
                 ("SBlock", [("SExpr", call(member(ident("fs"), "push"), ("EFunc", 1))), pr(I, call(ident("get"))),
                             ("SIf", ("EBinary", "BSEq", I, num(0)), ("SExpr", ("EOpAssign", "BAdd", I, num(0))), None)])),
                pr(call(member(call(member(ident("fs"), "map"), ("EFunc", 2)), "join")))],
               funcs=[arrow([], I), arrow([], I), arrow(["f"], call(ident("f")))]))
case("s05-closures-in-test-update-and-for-of-head", "closures created in the test / update expressions and in a for-of destructuring default capture the right per-iteration binding",
     script([let("fs", ("EArray", []), "KConst"),
             ("SFor", ("FIDecl", "KLet", [(pid("i"), num(0))]),
              ("ESeq", call(member(ident("fs"), "push"), ("EFunc", 0)), ("EBinary", "BLt", I, num(2))),
              ("ESeq", call(member(ident("fs"), "push"), ("EFunc", 1)), ("EUpdate", False, True, I)),
              ("SBlock", [pr(s("i"), I)])),
             pr(call(member(call(member(ident("fs"), "map"), ("EFunc", 2)), "join"))),
             ("SForOf", ("FHDecl", "KLet", ("PArr", [(pid("a"), None), (pid("f"), ("EFunc", 3))], None)),
              ("EArray", [("AElem", ("EArray", [("AElem", num(1))])), ("AElem", ("EArray", [("AElem", num(2))]))]),
              ("SBlock", [("SExpr", ("EOpAssign", "BAdd", ident("a"), num(10))), pr(ident("a"), call(ident("f")))]))],
            funcs=[arrow([], I), arrow([], I), arrow(["f"], call(ident("f"))), arrow([], ident("a"))]))

# regression sentinels for FunctionDeclarationInstantiation 27-28: closures in parameter defaults over FREE names that the body declares
X = ident("x")
case("s06-default-closure-free-name-body-var", "a default-parameter closure over a free name keeps the outer binding although the body declares `var x` (no parameter is redeclared)",
     script([("SDecl", "KVar", [(pid("x"), s("outer"))]), ("SFunDecl", u("f"), 3),
             pr(call(ident("f"))), pr(X)],
            funcs=[arrow([], X), arrow([], ("EUnary", "UTypeof", X)), arrow(["v"], ("EAssign", pid("x"), ident("v"))),
                   func(name="f", params=[(pid("g"), ("EFunc", 0)), (pid("t"), ("EFunc", 1)), (pid("w"), ("EFunc", 2))],
                        body=[pr(s("a"), call(ident("g")), call(ident("t")), X),
                              ("SDecl", "KVar", [(pid("x"), s("inner"))]),
                              ("SExpr", call(ident("w"), s("written"))),
                              pr(s("b"), X, call(ident("g"))),
                              ("SReturn", ("EBinary", "BAdd", ("EBinary", "BAdd", call(ident("g")), s(",")), X))])]))
case("s07-default-closure-free-name-body-function", "the same in a function-local setting with a body function declaration of that name and a body let of another",
     main_prog([let("x", s("outer")), let("y", s("outerY")), ("SFunDecl", u("f"), 3), pr(call(ident("f"), num(1))), pr(X, ident("y"))],
               funcs=[arrow([], X), arrow([], ("EUnary", "UTypeof", X)), arrow([], ident("y")),
                      func(name="f", params=[(pid("p"), None), (pid("g"), ("EFunc", 0)), (pid("t"), ("EFunc", 1)), (pid("h"), ("EFunc", 2))],
                           body=[pr(s("a"), call(ident("t")), ("EUnary", "UTypeof", X), call(ident("h"))),
                                 ("SFunDecl", u("x"), 4), let("y", s("innerY")),
                                 pr(s("b"), call(ident("g")), call(ident("t")), call(ident("h")), ident("y")),
                                 ("SReturn", call(ident("g")))]),
                      func(name="x", body=[("SReturn", s("fn"))])]))
case("s08-default-closure-free-name-generator-async", "generator and async function positions; the async one also redeclares a parameter (the other code path)",
     script([let("x", s("outer")), ("SFunDecl", u("gen"), 1), ("SFunDecl", u("af"), 2),
             let("it", call(ident("gen")), "KConst"), pr(member(call(member(ident("it"), "next")), "value")), pr(member(call(member(ident("it"), "next")), "value")),
             ("SExpr", call(member(call(ident("af"), num(1)), "then"), ("EFunc", 3))), pr(s("sync"), X)],
            funcs=[arrow([], X),
                   func(name="gen", kind="FGenerator", params=[(pid("g"), ("EFunc", 0))],
                        body=[("SDecl", "KVar", [(pid("x"), s("inner"))]), ("SYield", None, None, call(ident("g")), False), ("SReturn", X)]),
                   func(name="af", kind="FAsync", params=[(pid("p"), None), (pid("g"), ("EFunc", 0))],
                        body=[("SDecl", "KVar", [(pid("x"), s("inner")), (pid("p"), None)]), ("SAwait", None, None, num(0)),
                              ("SReturn", ("EBinary", "BAdd", ("EBinary", "BAdd", call(ident("g")), X), ident("p")))]),
                   arrow(["v"], call(ident("print"), s("then"), ident("v")))]))

if __name__ == "__main__":
    out = os.path.join(os.path.dirname(HERE), "corpus", "C01")
    os.makedirs(out, exist_ok=True)
    # cases whose class is not yet in known_findings.json (or fixed): kept here, written only once the coordinator accepted the entry,
    # so that the default run is not deterministically red for a finding that is already reported (fixes.d/C01-known-findings.proposed.json)
    PENDING = set()
    for c in CASES:
        if c["name"] in PENDING:
            continue
        c["js"] = to_js(c["prog"])
        encode_prog(c["prog"])
        with open(os.path.join(out, c["name"] + ".json"), "w") as f:
            json.dump(c, f, indent=1)
        print(c["name"], "|", c["js"].replace("\n", " "))
