"""C18 generators, stringify side: JS values (as trees), `space` arguments, and the wire encodings.

tree := ("N",) | ("T",) | ("F",) | ("X",) undefined | ("D", bits) any binary64 | ("S", units) | ("A", [tree]) | ("O", [(key units, tree)])
Object members are listed in *creation* order and may repeat a key: the harness creates the properties one after the
other through the engine's API, the model applies dedup_last / own_key_order, so the engine's property semantics
(overwrite keeps position, array-index keys first) is part of what is compared.
"""
import math
import struct

from c18_texts import INTERESTING_UNITS, KEYS, u


def bits_of(x):
    return struct.unpack("<Q", struct.pack("<d", x))[0]


def float_of(bits):
    return struct.unpack("<d", struct.pack("<Q", bits))[0]


INTERESTING_DOUBLES = [0.0, -0.0, 1.0, -1.0, 0.5, 0.1, 0.2, 0.30000000000000004, 1.5, 100.0, 1e21, 1e21 - 65536, 9.999999999999999e20, 1e-6, 1e-7, 1.5e-7,
                       123456789.0, 1234567890123456789.0, 9007199254740991.0, 9007199254740992.0, 9007199254740993.0, 4294967295.0, 4294967296.0, 2147483648.0,
                       -2147483648.0, 2147483647.0, 1.7976931348623157e308, 5e-324, 2.2250738585072014e-308, 2.225073858507201e-308, 4.35, 0.000001, 123e-20,
                       1e300, 1e-300, 3.141592653589793, 2.718281828459045, 255.0, 65535.0, 1e100, 0.1 + 0.7, 1 / 3, 2 / 3, 1e23, 8.41e21, 5e-7,
                       float("inf"), float("-inf"), float("nan")]


def gen_double(rng, tags):
    r = rng.random()
    if r < 0.3:
        x = float(rng.randrange(-1000, 1000))
    elif r < 0.65:
        x = rng.choice(INTERESTING_DOUBLES)
        if rng.random() < 0.3:
            x = -x
    elif r < 0.8:
        x = float_of(rng.getrandbits(64))
    elif r < 0.9:
        x = rng.uniform(-1, 1) * 10 ** rng.randrange(-30, 30)
    else:
        x = rng.randrange(1 << 53) * 2.0 ** rng.randrange(-1074, 970 - 52)
    if x != x or x in (float("inf"), float("-inf")):
        tags.add("num-nonfinite")
    elif x == 0 and math.copysign(1, x) < 0:
        tags.add("num-negzero")
    elif x != int(x) if abs(x) < 1e300 else False:
        tags.add("num-frac")
    elif abs(x) >= 1e21 or (x != 0 and abs(x) < 1e-6):
        tags.add("num-exp")
    return bits_of(x)


def gen_str(rng, tags, maxlen=10):
    n = rng.choice([0, 1, 1, 2, 3, 5, maxlen])
    out = []
    for _ in range(n):
        r = rng.random()
        if r < 0.4:
            out.append(rng.randrange(0x20, 0x7F))
        elif r < 0.7:
            c = rng.choice(INTERESTING_UNITS)
            out.append(c)
        elif r < 0.8:
            out += [rng.randrange(0xD800, 0xDC00), rng.randrange(0xDC00, 0xE000)]
            tags.add("str-pair")
        elif r < 0.86:
            out.append(rng.randrange(0xD800, 0xE000))
        elif r < 0.93:
            out.append(rng.randrange(0, 0x20))
        else:
            out.append(rng.randrange(0, 0x10000))
    if has_lone_surrogate(out):
        tags.add("str-lone-surrogate")
    if any(c < 0x20 for c in out):
        tags.add("str-control")
    if any(c in (0x22, 0x5C) for c in out):
        tags.add("str-quote-backslash")
    return out


def has_lone_surrogate(units):
    i = 0
    n = len(units)
    while i < n:
        c = units[i]
        if 0xD800 <= c <= 0xDBFF:
            if i + 1 < n and 0xDC00 <= units[i + 1] <= 0xDFFF:
                i += 2
                continue
            return True
        if 0xDC00 <= c <= 0xDFFF:
            return True
        i += 1
    return False


def gen_tree(rng, depth, tags, budget, surrogate_ok=True):
    budget[0] -= 1
    if depth <= 0 or budget[0] <= 0 or rng.random() < 0.3:
        r = rng.random()
        if r < 0.1:
            return ("N",)
        if r < 0.17:
            return ("T",)
        if r < 0.24:
            return ("F",)
        if r < 0.30:
            tags.add("undefined")
            return ("X",)
        if r < 0.65:
            return ("D", gen_double(rng, tags))
        s = gen_str(rng, tags)
        if not surrogate_ok and has_lone_surrogate(s):
            s = [c for c in s if not 0xD800 <= c <= 0xDFFF]
        return ("S", s)
    if rng.random() < 0.5:
        n = rng.choice([0, 1, 2, 3, 4])
        if n == 0:
            tags.add("empty-array")
        return ("A", [gen_tree(rng, depth - 1, tags, budget, surrogate_ok) for _ in range(n)])
    n = rng.choice([0, 1, 2, 3, 4, 5])
    ms = []
    used = []
    for _ in range(n):
        r = rng.random()
        if used and r < 0.15:
            k = list(rng.choice(used))
            tags.add("dup-key")
        elif r < 0.75:
            k = list(rng.choice(KEYS))
        else:
            k = gen_str(rng, tags, 4)
        if not surrogate_ok and has_lone_surrogate(k):
            k = [c for c in k if not 0xD800 <= c <= 0xDFFF]
        if k == u("__proto__"):
            tags.add("proto-key")
        if k and all(0x30 <= c <= 0x39 for c in k):
            tags.add("index-key")
        used.append(k)
        ms.append((k, gen_tree(rng, depth - 1, tags, budget, surrogate_ok)))
    if n == 0:
        tags.add("empty-object")
    return ("O", ms)


def tree_depth(t):
    if t[0] == "A":
        return 1 + max([tree_depth(e) for e in t[1]] or [0])
    if t[0] == "O":
        return 1 + max([tree_depth(e) for _, e in t[1]] or [0])
    return 0


def tree_doubles(t, acc):
    if t[0] == "D":
        acc.add(t[1])
    elif t[0] == "A":
        for e in t[1]:
            tree_doubles(e, acc)
    elif t[0] == "O":
        for _, e in t[1]:
            tree_doubles(e, acc)
    return acc


def hx(units):
    return "".join("%04x" % c for c in units)


def harness_tokens(t):
    k = t[0]
    if k in "NTFX":
        return k
    if k == "D":
        return "D%016x" % t[1]
    if k == "S":
        return "S" + hx(t[1])
    if k == "A":
        return " ".join(["["] + [harness_tokens(e) for e in t[1]] + ["]"])
    return " ".join(["{"] + ["K" + hx(key) + " " + harness_tokens(e) for key, e in t[1]] + ["}"])


def model_tokens(t, numtok):
    k = t[0]
    if k in "NTFX":
        return k
    if k == "D":
        x = float_of(t[1])
        if x != x or x in (float("inf"), float("-inf")):
            return "Z"
        return "M" + hx(numtok[t[1]])
    if k == "S":
        return "S" + hx(t[1])
    if k == "A":
        return " ".join(["["] + [model_tokens(e, numtok) for e in t[1]] + ["]"])
    return " ".join(["{"] + ["K" + hx(key) + " " + model_tokens(e, numtok) for key, e in t[1]] + ["}"])


# ---------------------------------------------------------------------------------------------
# the `space` argument

def to_integer_or_infinity(x):
    if x != x:
        return 0
    if x == float("inf"):
        return 1000000
    if x == float("-inf"):
        return -1000000
    return max(-1000000, min(1000000, int(x)))     # int() truncates toward zero


SPACE_NUMBERS = [0.0, -0.0, 1.0, 2.0, 3.0, 4.0, 8.0, 9.0, 10.0, 11.0, 12.0, 100.0, -1.0, -5.0, 0.5, 0.999, 1.5, 9.99, 10.5, 10.99, 1e21, 4294967297.0,
                 float("inf"), float("-inf"), float("nan"), 5e-324, 2147483648.0, -2147483649.0]
SPACE_STRINGS = [u(""), u(" "), u("  "), u("\t"), u("\n"), u("\r\n"), u(" \t\n\r"), u(" " * 10), u(" " * 11), u(" " * 25), u("\t" * 12), u("          x"),
                 u("-"), u("--"), u("ab"), u("0123456789abc"), u(" "), [0xD800], u(" "), u('"'), u("\\"), u(",")]


def gen_space(rng):
    """(harness token, model token, tag)"""
    r = rng.random()
    if r < 0.3:
        return "-", "-", "space-none"
    if r < 0.65:
        x = rng.choice(SPACE_NUMBERS) if rng.random() < 0.8 else float(rng.randrange(-3, 15))
        z = to_integer_or_infinity(x)
        tag = "space-num-empty" if z < 1 else ("space-num-clamped" if z > 10 else "space-num")
        return "n%016x" % bits_of(x), "n%d" % z, tag
    s = rng.choice(SPACE_STRINGS)
    valid = all(c in (0x20, 0x09, 0x0A, 0x0D) for c in s[:10])
    tag = ("space-str-ws" if valid else "space-str-nonws") + ("-long" if len(s) > 10 else "")
    return "s" + hx(s), "s" + hx(s), tag


# ---------------------------------------------------------------------------------------------
# Number::toString (ECMA-262 6.1.6.1.20) from Python's shortest round-trip digits; used only to report a
# difference with the engine's own String(x) as a C13-type note (the model is fed the engine's token)

def js_number_string(x):
    if x != x:
        return "NaN"
    if x == 0:
        return "0"
    if x < 0:
        return "-" + js_number_string(-x)
    if x == float("inf"):
        return "Infinity"
    r = repr(x)
    if "e" in r:
        m, e = r.split("e")
        e = int(e)
    else:
        m, e = r, 0
    if "." in m:
        ip, fp = m.split(".")
    else:
        ip, fp = m, ""
    digits = (ip + fp).lstrip("0")
    n = len(ip) + e          # position of the decimal point relative to the start of ip+fp
    n -= len(ip + fp) - len((ip + fp).lstrip("0"))
    digits = digits.rstrip("0") or "0"
    k = len(digits)
    if k <= n <= 21:
        return digits + "0" * (n - k)
    if 0 < n <= 21:
        return digits[:n] + "." + digits[n:]
    if -6 < n <= 0:
        return "0." + "0" * (-n) + digits
    e = n - 1
    sign = "+" if e >= 0 else "-"
    if k == 1:
        return digits + "e" + sign + str(abs(e))
    return digits[0] + "." + digits[1:] + "e" + sign + str(abs(e))
