"""C18 generators, stringify side, deepening round: values with SHARING (DAGs) and genuine cycles.

graph tree := a c18_values tree whose nodes may also be
    ("L", n, node)   the instance `node` (an "A", "O" or "J" node), remembered under label n; this is its first occurrence in build order
    ("R", n)         the same instance again (inside the instance itself: a cycle)
    ("J", expr, d)   the value of the JS expression `expr` (evaluated in the harness context); d = the plain tree it denotes for
                     JSON.stringify (Map -> {}, symbol-keyed object -> {}, Number wrapper -> the number, function -> undefined ...)
Sharing is not observable in JSON: the expected text is the model's text for the unfolded tree, and -- independently -- the text of the
extracted model with identities (DeepModel_C18.ser_id: store + stack).  A reachable cycle must throw TypeError.
Object keys are distinct inside one object here (duplicate keys are the business of c18_values), so that a self reference that was
generated is also reachable.
"""
import c18_values as V
from c18_texts import KEYS as ALL_KEYS, u

# a callable under the key "toJSON" is a method, not a member: the exotic callables must not land there
KEYS = [k for k in ALL_KEYS if k != u("toJSON")]

# (JS expression, denotation) -- objects without enumerable own string keys, wrappers, callables
EXOTIC = [
    ("new Map([[1,2]])", ("O", [])),
    ("new Set([1,2,3])", ("O", [])),
    ("new WeakMap()", ("O", [])),
    ("({[Symbol('s')]:1})", ("O", [])),
    ("({[Symbol.iterator]:null,[Symbol('t')]:[1]})", ("O", [])),
    ("Object.defineProperty({},'h',{value:1,enumerable:false})", ("O", [])),
    ("Object.defineProperties({},{h:{value:1,enumerable:false},g:{get:function(){return 1},enumerable:false}})", ("O", [])),
    ("Object.create({inherited:1})", ("O", [])),
    ("Object.create(null)", ("O", [])),
    ("Object.freeze({})", ("O", [])),
    ("new Error('e')", ("O", [])),
    ("Object.defineProperty([], 'x', {value:1})", ("A", [])),
    ("new Array(2)", ("A", [("N",), ("N",)])),
    ("new Number(5)", ("D", V.bits_of(5.0))),
    ("new Number(NaN)", ("N",)),
    ("new String('w')", ("S", u("w"))),
    ("new Boolean(false)", ("F",)),
    ("Object(true)", ("T",)),
    ("(function(){})", ("X",)),
    ("Symbol('q')", ("X",)),
    ("({x:undefined,y:function(){}})", ("O", [])),          # has keys, every member dropped
    ("({k:1,toJSON:undefined})", ("O", [(u("k"), ("D", V.bits_of(1.0)))])),
]


def gen_shared_node(rng, depth, tags, later):
    """one shared instance; `later` = placeholders of instances it may contain (keeps the pool acyclic)"""
    r = rng.random()
    if r < 0.30:
        tags.add("shared-empty-object")
        return ("O", [])
    if r < 0.42:
        tags.add("shared-empty-array")
        return ("A", [])
    if r < 0.62:
        tags.add("shared-exotic")
        e, d = rng.choice(EXOTIC)
        return ("J", e, d)
    tags.add("shared-nonempty")
    return gen_graph(rng, max(1, depth), tags, [6], later, force_container=True)


def gen_graph(rng, depth, tags, budget, pool, force_container=False):
    """a tree with ("P", n) placeholders for pool instances"""
    budget[0] -= 1
    if pool and not force_container and rng.random() < 0.30:
        return ("P", rng.choice(pool))
    if not force_container and (depth <= 0 or budget[0] <= 0 or rng.random() < 0.25):
        t = set()
        leaf = V.gen_tree(rng, 0, t, [1])
        if leaf[0] == "X":
            tags.add("undefined")
        return leaf
    if rng.random() < 0.5:
        n = rng.choice([1, 2, 2, 3, 4])
        return ("A", [gen_graph(rng, depth - 1, tags, budget, pool) for _ in range(n)])
    n = rng.choice([1, 2, 2, 3, 4])
    keys = rng.sample(KEYS, n)
    return ("O", [(list(k), gen_graph(rng, depth - 1, tags, budget, pool)) for k in keys])


def resolve(t, defs, seen, open_):
    """placeholders -> L (first occurrence in build order) / R; ("PS", n) = reference to the enclosing instance n (a cycle)"""
    k = t[0]
    if k == "P":
        n = t[1]
        if n in seen:
            return ("R", n)
        seen.add(n)
        open_.append(n)
        node = resolve(defs[n], defs, seen, open_)
        open_.pop()
        return ("L", n, node)
    if k == "A":
        return ("A", [resolve(e, defs, seen, open_) for e in t[1]])
    if k == "O":
        return ("O", [(key, resolve(e, defs, seen, open_)) for key, e in t[1]])
    return t


def place_self_reference(rng, node, n):
    """put a reference to instance n somewhere inside its own (non-empty, container) definition; returns a new node or None"""
    if node[0] == "A":
        es = list(node[1])
        i = rng.randrange(len(es) + 1)
        inner = ("R", n)
        if rng.random() < 0.5:
            inner = rng.choice([("A", [inner]), ("O", [(u("self"), inner)])])     # the cycle passes through a fresh container
        es.insert(i, inner)
        return ("A", es)
    if node[0] == "O":
        ms = list(node[1])
        inner = ("R", n)
        if rng.random() < 0.5:
            inner = rng.choice([("A", [("N",), inner]), ("O", [(u("self"), inner)])])
        ms.insert(rng.randrange(len(ms) + 1), (u("cyc"), inner))
        return ("O", ms)
    return None


def gen_dag_case(rng, maxdepth=6):
    """returns dict(graph, cyclic, tags)"""
    tags = set()
    npool = rng.choice([1, 1, 2, 3])
    labels = list(range(1, npool + 1))
    defs = {}
    for i in reversed(labels):           # instance i may contain instances > i
        defs[i] = gen_shared_node(rng, rng.choice([1, 2]), tags, [j for j in labels if j > i])
    depth = rng.choice([1, 2, 3, maxdepth])
    root = gen_graph(rng, depth, tags, [rng.choice([6, 15, 40])], labels, force_container=True)
    # make sure at least one instance occurs twice: sharing is the point
    twice = rng.choice(labels)
    extra = [("P", twice), ("P", twice)]
    if root[0] == "A":
        root = ("A", list(root[1]) + extra) if rng.random() < 0.5 else ("A", extra[:1] + list(root[1]) + extra[1:])
    else:
        used = {tuple(k) for k, _ in root[1]}
        fresh = [k for k in KEYS if tuple(k) not in used][:2]
        root = ("O", list(root[1]) + [(list(fresh[0]), extra[0]), (list(fresh[1]), extra[1])])
    if rng.random() < 0.10:
        cands = [i for i in labels if defs[i][0] in ("A", "O")]
        if cands:
            n = twice if (twice in cands and rng.random() < 0.6) else rng.choice(cands)
            defs[n] = place_self_reference(rng, defs[n], n)
    g = resolve(root, defs, set(), [])
    cyclic = has_cycle(g)          # the instance with the self reference must also be reachable from the root
    tags.add("dag-cyclic" if cyclic else "dag-acyclic")
    tags.add("dag-depth-%d" % min(depth_of(g), 8))
    refs = count_refs(g)
    tags.add("dag-refs-%s" % ("1" if refs == 1 else "2-3" if refs <= 3 else "4+"))
    return {"graph": g, "cyclic": cyclic, "tags": sorted(tags)}


def has_cycle(g, open_=()):
    k = g[0]
    if k == "L":
        return has_cycle(g[2], open_ + (g[1],))
    if k == "R":
        return g[1] in open_
    if k == "A":
        return any(has_cycle(e, open_) for e in g[1])
    if k == "O":
        return any(has_cycle(e, open_) for _, e in g[1])
    return False


def count_refs(g):
    k = g[0]
    if k == "R":
        return 1
    if k == "L":
        return count_refs(g[2])
    if k == "A":
        return sum(count_refs(e) for e in g[1])
    if k == "O":
        return sum(count_refs(e) for _, e in g[1])
    return 0


def depth_of(g):
    k = g[0]
    if k == "L":
        return depth_of(g[2])
    if k == "A":
        return 1 + max([depth_of(e) for e in g[1]] or [0])
    if k == "O":
        return 1 + max([depth_of(e) for _, e in g[1]] or [0])
    return 0


def definitions(g, acc=None):
    acc = {} if acc is None else acc
    k = g[0]
    if k == "L":
        acc[g[1]] = g[2]
        definitions(g[2], acc)
    elif k == "A":
        for e in g[1]:
            definitions(e, acc)
    elif k == "O":
        for _, e in g[1]:
            definitions(e, acc)
    return acc


def unfold(g, defs=None):
    """the plain c18_values tree (acyclic graphs only)"""
    defs = definitions(g) if defs is None else defs
    k = g[0]
    if k == "L":
        return unfold(g[2], defs)
    if k == "R":
        return unfold(defs[g[1]], defs)
    if k == "J":
        return g[2]
    if k == "A":
        return ("A", [unfold(e, defs) for e in g[1]])
    if k == "O":
        return ("O", [(key, unfold(e, defs)) for key, e in g[1]])
    return g


def hx(units):
    return "".join("%04x" % c for c in units)


def harness_tokens(g):
    k = g[0]
    if k == "L":
        return "&%d %s" % (g[1], harness_tokens(g[2]))
    if k == "R":
        return "*%d" % g[1]
    if k == "J":
        return "J" + hx(u(g[1]))
    if k == "A":
        return " ".join(["["] + [harness_tokens(e) for e in g[1]] + ["]"])
    if k == "O":
        return " ".join(["{"] + ["K" + hx(key) + " " + harness_tokens(e) for key, e in g[1]] + ["}"])
    return V.harness_tokens(g)


def model_id_tokens(g, numtok, defs=None):
    """tokens for the model with identities: exotic values by their denotation; an instance that denotes a primitive (wrapper, function)
    has no identity in the model and is written out at every occurrence"""
    defs = definitions(g) if defs is None else defs
    k = g[0]
    if k == "L":
        node = g[2]
        if node[0] == "J" and node[2][0] not in ("A", "O"):
            return V.model_tokens(node[2], numtok)
        inner = V.model_tokens(node[2], numtok) if node[0] == "J" else model_id_tokens(node, numtok, defs)
        return "&%d %s" % (g[1], inner)
    if k == "R":
        node = defs[g[1]]
        if node[0] == "J" and node[2][0] not in ("A", "O"):
            return V.model_tokens(node[2], numtok)
        return "*%d" % g[1]
    if k == "J":
        return V.model_tokens(g[2], numtok)
    if k == "A":
        return " ".join(["["] + [model_id_tokens(e, numtok, defs) for e in g[1]] + ["]"])
    if k == "O":
        return " ".join(["{"] + ["K" + hx(key) + " " + model_id_tokens(e, numtok, defs) for key, e in g[1]] + ["}"])
    return V.model_tokens(g, numtok)


def graph_doubles(g, acc):
    k = g[0]
    if k == "L":
        graph_doubles(g[2], acc)
    elif k == "J":
        V.tree_doubles(g[2], acc)
    elif k == "A":
        for e in g[1]:
            graph_doubles(e, acc)
    elif k == "O":
        for _, e in g[1]:
            graph_doubles(e, acc)
    elif k == "D":
        acc.add(g[1])
    return acc


def has_exotic(g):
    k = g[0]
    if k == "J":
        return True
    if k == "L":
        return has_exotic(g[2])
    if k == "A":
        return any(has_exotic(e) for e in g[1])
    if k == "O":
        return any(has_exotic(e) for _, e in g[1])
    return False


def fixed_cases():
    """the smallest shapes of sharing, always run first: the same key-less / keyed instance twice under an object, an array, at two
    depths, every exotic key-less object twice, and the smallest cycles"""
    out = []
    E = lambda n: ("L", n, ("O", []))
    shapes = [
        ("O", [(u("a"), E(1)), (u("b"), ("R", 1))]),
        ("A", [E(1), ("R", 1)]),
        ("A", [("L", 1, ("A", [])), ("R", 1)]),
        ("O", [(u("a"), ("A", [E(1)])), (u("b"), ("O", [(u("c"), ("A", [("R", 1), ("R", 1)]))]))]),
        ("A", [("L", 1, ("O", [(u("k"), ("D", V.bits_of(1.0)))])), ("R", 1), ("R", 1)]),
        ("A", [("L", 1, ("O", [(u("x"), ("X",))])), ("R", 1)]),                       # keys, but every member dropped
        ("O", [(u("a"), ("L", 1, ("O", [(u("in"), E(2))]))), (u("b"), ("R", 2)), (u("c"), ("R", 1))]),
    ]
    for e, d in EXOTIC:
        shapes.append(("A", [("L", 1, ("J", e, d)), ("R", 1)]))
        shapes.append(("O", [(u("a"), ("L", 1, ("J", e, d))), (u("b"), ("O", [(u("c"), ("R", 1))]))]))
    for g in shapes:
        out.append({"graph": g, "cyclic": False, "tags": ["dag-fixed", "dag-acyclic"]})
    cycles = [
        ("L", 1, ("O", [(u("a"), ("R", 1))])),
        ("L", 1, ("A", [("R", 1)])),
        ("A", [("L", 1, ("O", [(u("a"), ("A", [("O", [(u("b"), ("R", 1))])]))]))]),
        ("O", [(u("a"), E(2)), (u("b"), ("R", 2)), (u("c"), ("L", 1, ("A", [("N",), ("R", 1)])))]),
    ]
    for g in cycles:
        out.append({"graph": g, "cyclic": True, "tags": ["dag-fixed", "dag-cyclic"]})
    return out
