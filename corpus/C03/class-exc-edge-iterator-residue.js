[v]=[]
try{}catch(e){}