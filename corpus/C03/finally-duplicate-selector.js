function f() { var n = 0; for (var i = 0; i < 3; i++) { n++; try { try { if (i == 0) continue; break; } finally {} } finally {} } return n }
function g() { var n = 0; for (var i = 0; i < 3; i++) { n++; try { try { if (i == 0) continue; return 'ret' + n; } finally {} } finally {} } return 'end' + n }
f(); g();
