var i = 1; var v; v = "x" + (i ??= 3);
var gv = 0; function f() { return (gv ||= 1) + (gv &&= 2); } f();
