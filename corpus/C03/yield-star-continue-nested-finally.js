function* g(){ for (const x of [1,2]) { try { try { yield* [x]; throw 0 } catch (e) { continue; } finally { } } finally { } } }
var out = []; for (const v of g()) out.push(v);
