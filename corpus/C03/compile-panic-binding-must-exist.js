class C { [(function () { var v; })]() {} }
