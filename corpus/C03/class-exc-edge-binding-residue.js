""
try{((l++)())}catch{}