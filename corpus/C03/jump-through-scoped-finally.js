var fns = [];
function f(a) { L: for (let o = 0; o < 2; o++) { try { try { for (let i = 0; i < 2; i++) { fns.push(() => i); let v = i; fns.push(() => v); if (a) return v; } } finally { let z = 1; fns.push(() => z); } } finally { let y = 2; fns.push(() => y); } } }
f(0); f(1);
function g(a) { L: for (let o = 0; o < 2; o++) { try { try { throw 1 } catch (e) { let v = e; fns.push(() => v + e); if (a) continue L; break L; } } finally { let z = 1; fns.push(() => z); } } }
g(0); g(1);
function h(a) { try { switch (1) { case 1: let v = 1; fns.push(() => v); if (a) return v; } { let w = 2; fns.push(() => w); return w; } } finally { let z = 1; fns.push(() => z); } }
h(0); h(1);
