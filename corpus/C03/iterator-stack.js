var log = [];
for (var x of [7, 8]) { L: { for (var v of [1]) { break L; } } }
var bad = { [Symbol.iterator]() { return { next() { throw new Error('n') } } } };
function f1() { for (var x of [1, 2]) { try { var [a] = [x]; } catch (e) {} } }
f1();
function mk(tag) { var i = 0; return { [Symbol.iterator]() { return { next() { i++; return { value: i, done: i > 2 } }, return() { log.push(tag); return {} } } } } }
function f2() { for (var y of mk('P')) { try { for (var k in { a: 1 }) { throw 1 } } catch (e) {} break; } }
f2();
