function f(a, b) { return a } function g() { throw 1 } var x;
try { f(1, 2, g()); } catch (e) {}
try { x = g(); } catch (e) {}
function h(it) { for (const y of it) { (() => y); return 1; } }
try { h([1]); } catch (e) {}
async function k(a) { { let z = a; (() => z); await z; } }
k(1);
