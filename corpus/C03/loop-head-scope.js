var fns = [];
function f() { for (let i of [() => i, 2]) { fns.push(() => i); let w = i; fns.push(() => w + 1); } for (const k in (eval("1"), { a: 1 })) { fns.push(() => k); } }
f();
async function g() { for await (const v of [() => v]) { fns.push(() => v); { let z = v; fns.push(() => z); } } }
g();
