"""Shared machinery for the /verif checks.

Verdict logic (DESIGN.md 1.1):
  1. regenerate translator outputs from /repo, build the Coq theories of the property (full .vo)
  2. gates: no Admitted/admit/Axiom/...; Print Assumptions within the allow-list; statement pins
  3. build the harness from /repo's working tree (--cfg boa_verif)
  4. corpus, then seeded generated cases: model vs implementation (correspondence)
  5. end-to-end search on the implementation with the property's own oracle
A broken proof/correspondence triggers an enlarged search for a concrete failing input; without
one the violation is still reported, the VIOLATION line ending in `no-failing-input-found`.
"""
import fcntl
import hashlib
import json
import os
import random
import re
import subprocess
import sys
import time

VERIF = os.path.dirname(os.path.dirname(os.path.abspath(__file__)))
REPO = os.environ.get("VERIF_REPO", "/repo")
COQ = os.path.join(VERIF, "coq")
HARNESS = os.path.join(VERIF, "harness")
OCAML = os.path.join(VERIF, "ocaml")
WORK = os.path.join(VERIF, "work")
EVID = os.path.join(VERIF, "evidence")
REPLAY = os.path.join(VERIF, "replay")
CORPUS = os.path.join(VERIF, "corpus")
def _ncpu():
    """Worker count: all cores, fewer when the machine is already oversubscribed (many checks being developed at once)."""
    n = os.cpu_count() or 4
    if os.environ.get("VERIF_NCPU"):
        return max(1, int(os.environ["VERIF_NCPU"]))
    try:
        la = os.getloadavg()[0]
    except OSError:
        la = 0
    if la > 3 * n:
        return max(2, n // 4)
    if la > 1.5 * n:
        return max(2, n // 2)
    return n


NCPU = _ncpu()

ALLOWED_AXIOMS = {
    # standard-library axioms that may appear (DESIGN.md section 3); each is named in the evidence
    "functional_extensionality_dep",
    "FunctionalExtensionality.functional_extensionality_dep",
    "proof_irrelevance", "ProofIrrelevance.proof_irrelevance",
    "Eqdep.Eq_rect_eq.eq_rect_eq", "Eq_rect_eq.eq_rect_eq", "eq_rect_eq",
    "JMeq_eq", "JMeq.JMeq_eq",
    "Classical_Prop.classic", "classic",
    "ClassicalDedekindReals.sig_forall_dec", "ClassicalDedekindReals.sig_not_dec",
    "sig_forall_dec", "sig_not_dec",
    "FunctionalExtensionality.functional_extensionality_dep",
}

BANNED = re.compile(
    r"\b(Admitted|admit|Axiom|Axioms|Parameter|Parameters|Conjecture|Conjectures|Admit\s+Obligations|"
    r"Unset\s+Guard\s+Checking|Unset\s+Positivity\s+Checking|Unset\s+Universe\s+Checking|"
    r"bypass_check|native_compute|type-in-type|impredicative-set)\b")


def log(*a):
    print(*a, file=sys.stderr, flush=True)


class Lock:
    def __init__(self, name):
        os.makedirs(WORK, exist_ok=True)
        self.path = os.path.join(WORK, name + ".lock")

    def __enter__(self):
        self.f = open(self.path, "w")
        fcntl.flock(self.f, fcntl.LOCK_EX)
        return self

    def __exit__(self, *a):
        fcntl.flock(self.f, fcntl.LOCK_UN)
        self.f.close()


def sh(cmd, cwd=None, timeout=None, env=None, input=None):
    """Run a command, return (rc, stdout, stderr)."""
    e = dict(os.environ)
    if env:
        e.update(env)
    try:
        p = subprocess.run(cmd, cwd=cwd, timeout=timeout, env=e, input=input,
                           stdout=subprocess.PIPE, stderr=subprocess.PIPE, text=True,
                           shell=isinstance(cmd, str), errors="replace")
        return p.returncode, p.stdout, p.stderr
    except subprocess.TimeoutExpired as ex:
        out = ex.stdout.decode("utf8", "replace") if isinstance(ex.stdout, bytes) else (ex.stdout or "")
        err = ex.stderr.decode("utf8", "replace") if isinstance(ex.stderr, bytes) else (ex.stderr or "")
        return 124, out, err + "\nTIMEOUT"


def write_if_changed(path, content):
    os.makedirs(os.path.dirname(path), exist_ok=True)
    try:
        with open(path) as f:
            if f.read() == content:
                return False
    except FileNotFoundError:
        pass
    with open(path, "w") as f:
        f.write(content)
    return True


# ----------------------------------------------------------------------------------------------
# Coq

def coq_dirs():
    return sorted(d for d in os.listdir(COQ)
                  if os.path.isdir(os.path.join(COQ, d)) and not d.startswith(".") and d != "work")


def coq_files():
    out = []
    for d in coq_dirs():
        for root, _, files in os.walk(os.path.join(COQ, d)):
            for f in sorted(files):
                if f.endswith(".v"):
                    out.append(os.path.relpath(os.path.join(root, f), COQ))
    return sorted(out)


def coq_qflags():
    fl = []
    for d in coq_dirs():
        fl += ["-Q", d, d]
    return fl


def coq_project():
    """(Re)generate _CoqProject and Makefile when the file set changed."""
    lines = []
    for d in coq_dirs():
        lines.append("-Q %s %s" % (d, d))
    lines.append("-arg -w -arg -notation-overridden,-deprecated-hint-without-locality,-deprecated-instance-without-locality")
    lines += coq_files()
    changed = write_if_changed(os.path.join(COQ, "_CoqProject"), "\n".join(lines) + "\n")
    if changed or not os.path.exists(os.path.join(COQ, "Makefile")):
        rc, out, err = sh(["coq_makefile", "-f", "_CoqProject", "-o", "Makefile"], cwd=COQ, timeout=120)
        if rc != 0:
            raise RuntimeError("coq_makefile failed: " + err)


def coq_make(targets, timeout=3000):
    """Full .vo build of the given targets (relative .vo paths).  Returns (ok, log_text)."""
    os.makedirs(os.path.join(OCAML, "gen"), exist_ok=True)   # extraction targets
    for d in coq_dirs():
        if any(f.startswith("Extract") for f in os.listdir(os.path.join(COQ, d))):
            os.makedirs(os.path.join(OCAML, d, "_build"), exist_ok=True)
    with Lock("coq"):
        coq_project()
        rc, out, err = sh(["make", "-j%d" % NCPU, "-k"] + list(targets), cwd=COQ, timeout=timeout)
    return rc == 0, out + "\n" + err


def first_coq_error(logtext):
    m = re.search(r'File "([^"]+)", line (\d+), characters [^\n]*\n(Error:[^\n]*(?:\n[^\n]+){0,6})', logtext)
    if m:
        return {"file": m.group(1), "line": int(m.group(2)), "error": m.group(3)[:1500]}
    m = re.search(r"(Error[^\n]*(?:\n[^\n]+){0,6})", logtext)
    return {"file": None, "line": None, "error": (m.group(1) if m else logtext[-1500:])}


def strip_coq_comments(src):
    out, depth, i = [], 0, 0
    instr = False
    while i < len(src):
        if not instr and src.startswith("(*", i):
            depth += 1
            i += 2
        elif not instr and depth and src.startswith("*)", i):
            depth -= 1
            i += 2
        else:
            c = src[i]
            if depth == 0:
                if c == '"':
                    instr = not instr
                out.append(c)
            i += 1
    return "".join(out)


def coq_grep_gate(dirs):
    """Reject banned vernacular anywhere in the given theory directories (comments stripped)."""
    bad = []
    for d in dirs:
        for root, _, files in os.walk(os.path.join(COQ, d)):
            for f in sorted(files):
                if not f.endswith(".v"):
                    continue
                p = os.path.join(root, f)
                src = strip_coq_comments(open(p).read())
                # remove string literals
                src_ns = re.sub(r'"[^"]*"', '""', src)
                for m in BANNED.finditer(src_ns):
                    ln = src_ns.count("\n", 0, m.start()) + 1
                    bad.append("%s:%d: %s" % (os.path.relpath(p, COQ), ln, m.group(0)))
                # Variable/Hypothesis outside a section
                depth = 0
                for ln, line in enumerate(src_ns.split("\n"), 1):
                    if re.match(r"\s*Section\s+\w+", line):
                        depth += 1
                    elif re.match(r"\s*End\s+\w+", line) and depth > 0:
                        depth -= 1
                    elif depth == 0 and re.match(r"\s*(Variable|Variables|Hypothesis|Hypotheses|Context)\b", line):
                        bad.append("%s:%d: %s outside a section" % (os.path.relpath(p, COQ), ln, line.strip()[:40]))
    return bad


def props_theorems(props_rel):
    """Names of the theorems pinned in a Props file, and the pins (`Check name : stmt.`)."""
    src = strip_coq_comments(open(os.path.join(COQ, props_rel)).read())
    thms = re.findall(r"^\s*Theorem\s+(\w+)", src, re.M)
    pins = re.findall(r"^\s*Check\s+(\w+)\s*:", src, re.M)
    return thms, pins


def coq_assumptions(props_rel, thms, timeout=600):
    """Compile a scratch file that prints the assumptions of every theorem; returns
    {theorem: [axiom names]} and raw text."""
    mod = props_rel[:-2].replace("/", ".")
    os.makedirs(os.path.join(COQ, "work"), exist_ok=True)
    name = "Assum_" + mod.replace(".", "_")
    body = ["Require Import %s." % mod]
    for t in thms:
        body.append('Goal True. idtac "@@THM %s". exact I. Qed.' % t)
        body.append("Print Assumptions %s." % t)
    path = os.path.join(COQ, "work", name + ".v")
    with open(path, "w") as f:
        f.write("\n".join(body) + "\n")
    rc, out, err = sh(["coqc", "-noglob"] + coq_qflags() + ["-Q", "work", "Work", path], cwd=COQ, timeout=timeout)
    for ext in (".vo", ".vok", ".vos", ".glob"):
        try:
            os.remove(path[:-2] + ext)
        except OSError:
            pass
    res = {}
    if rc != 0:
        return None, out + err
    cur = None
    for line in out.split("\n"):
        m = re.match(r"@@THM (\w+)", line)
        if m:
            cur = m.group(1)
            res[cur] = []
            continue
        if cur is None:
            continue
        if line.startswith("Closed under the global context") or line.startswith("Axioms:") or not line.strip():
            continue
        m = re.match(r"^([A-Za-z_][\w.']*)\s*(:|$)", line)
        if m and not line.startswith(" "):
            res[cur].append(m.group(1))
    return res, out


def proof_stage(prop_id, dirs, props_rel, extra_targets=()):
    """Steps 1-3 of the verdict logic for one property.  Returns a dict:
       ok, obligations, discharged, theorems, axioms, broken (description or None), log."""
    t0 = time.time()
    targets = [props_rel + "o"] + [t for t in extra_targets]
    ok, logtext = coq_make(targets)
    res = {"ok": ok, "theorems": [], "axioms": {}, "broken": None, "obligations": 0, "discharged": 0,
           "checker_cmd": "coq_makefile -f _CoqProject && make -j%d %s; coqc Print Assumptions; grep gate" % (NCPU, " ".join(targets))}
    thms, pins = props_theorems(props_rel)
    res["theorems"] = thms
    res["obligations"] = len(thms)
    if not ok:
        e = first_coq_error(logtext)
        res["broken"] = {"kind": "proof", "detail": e}
        # which theorems still check?  (Props file failed or a dependency failed)
        res["discharged"] = 0
        res["log"] = logtext[-4000:]
        res["wall_s"] = time.time() - t0
        return res
    bad = coq_grep_gate(dirs)
    if bad:
        res["ok"] = False
        res["broken"] = {"kind": "gate", "detail": {"error": "banned vernacular: " + "; ".join(bad[:10])}}
        res["wall_s"] = time.time() - t0
        return res
    missing_pins = [t for t in thms if t not in pins]
    if missing_pins:
        res["ok"] = False
        res["broken"] = {"kind": "gate", "detail": {"error": "theorems without statement pin: " + ", ".join(missing_pins)}}
        res["wall_s"] = time.time() - t0
        return res
    ax, raw = coq_assumptions(props_rel, thms)
    if ax is None:
        res["ok"] = False
        res["broken"] = {"kind": "proof", "detail": {"error": "Print Assumptions failed: " + raw[-1500:]}}
        res["wall_s"] = time.time() - t0
        return res
    res["axioms"] = ax
    notallowed = {t: [a for a in l if a not in ALLOWED_AXIOMS and a.split(".")[-1] not in ALLOWED_AXIOMS] for t, l in ax.items()}
    notallowed = {t: l for t, l in notallowed.items() if l}
    if notallowed:
        res["ok"] = False
        res["broken"] = {"kind": "gate", "detail": {"error": "assumptions outside allow-list: %r" % notallowed}}
        res["wall_s"] = time.time() - t0
        return res
    res["discharged"] = len(thms)
    res["wall_s"] = time.time() - t0
    return res


def coq_eval(name, body, timeout=900):
    """Compile a scratch cases file (vm_compute evaluation); returns (rc, stdout, stderr)."""
    os.makedirs(os.path.join(COQ, "work"), exist_ok=True)
    path = os.path.join(COQ, "work", name + ".v")
    with open(path, "w") as f:
        f.write(body)
    rc, out, err = sh(["coqc", "-noglob"] + coq_qflags() + ["-Q", "work", "Work", path], cwd=COQ, timeout=timeout)
    for ext in (".vo", ".vok", ".vos", ".glob"):
        try:
            os.remove(path[:-2] + ext)
        except OSError:
            pass
    return rc, out, err


# ----------------------------------------------------------------------------------------------
# Rust harness

def cargo_env(cfg=True, extra_rustflags=""):
    e = {"CARGO_NET_OFFLINE": "true", "CARGO_TERM_COLOR": "never"}
    flags = "--cap-lints allow"
    if cfg:
        flags += " --cfg boa_verif"
    if extra_rustflags:
        flags += " " + extra_rustflags
    e["RUSTFLAGS"] = flags
    return e


def harness_build(bins, profile="debug", features=(), target_dir=None, timeout=3000):
    """Build harness binaries against /repo's current working tree.  Returns (ok, {bin: path}, log)."""
    lock = os.path.join(HARNESS, "Cargo.lock")
    src_lock = os.path.join(REPO, "Cargo.lock")
    with Lock("cargo"):
        if not os.path.exists(lock) or os.path.getmtime(lock) < os.path.getmtime(src_lock):
            import shutil
            shutil.copyfile(src_lock, lock)
        td = target_dir or os.path.join(HARNESS, "target")
        cmd = ["cargo", "build", "--offline", "--target-dir", td]
        if profile == "release":
            cmd.append("--release")
        for b in bins:
            cmd += ["--bin", b]
        if features:
            cmd += ["--features", ",".join(features)]
        rc, out, err = sh(cmd, cwd=HARNESS, timeout=timeout, env=cargo_env())
    paths = {b: os.path.join(td, "release" if profile == "release" else "debug", b) for b in bins}
    return rc == 0, paths, (out + err)[-6000:]


# ----------------------------------------------------------------------------------------------
# evidence / replay / verdicts

class Run:
    def __init__(self, prop_id, level, tier=None, seed=None):
        self.prop = prop_id
        self.level = level
        self.tier = tier or os.environ.get("VERIF_TIER") or "quick"
        if self.tier not in ("quick", "thorough"):
            self.tier = "quick"
        s = seed if seed is not None else os.environ.get("VERIF_SEED")
        try:
            self.seed = int(s) if s is not None else 20260923
        except ValueError:
            self.seed = int(hashlib.sha256(str(s).encode()).hexdigest()[:8], 16)
        self.rng = random.Random(self.seed)
        self.t0 = time.time()
        self.cov = {"evaluations": 0, "distinct_nontrivial": 0, "rule": "", "samples": []}
        self.assumptions = []
        self.violations = []   # list of (replay_path, suffix)
        self.known = []
        self.notes = []
        self._distinct = set()
        os.makedirs(EVID, exist_ok=True)
        os.makedirs(REPLAY, exist_ok=True)

    @property
    def quick(self):
        return self.tier == "quick"

    def count(self, case_key, nontrivial=True):
        self.cov["evaluations"] += 1
        if nontrivial:
            h = hashlib.sha1(repr(case_key).encode("utf8", "replace")).digest()[:8]
            self._distinct.add(h)

    def sample(self, s, limit=6):
        if len(self.cov["samples"]) < limit:
            self.cov["samples"].append(s)

    def set_proof(self, pr, trusted_base):
        self.cov["obligations"] = pr["obligations"]
        self.cov["discharged"] = pr["discharged"]
        self.cov["checker_cmd"] = pr["checker_cmd"]
        self.cov["trusted_base"] = list(trusted_base)
        self.cov["theorems"] = pr["theorems"]
        self.cov["print_assumptions"] = {t: (a if a else ["Closed under the global context"]) for t, a in pr["axioms"].items()}
        self.cov["proof_wall_s"] = round(pr.get("wall_s", 0), 1)

    def replay_file(self, obj, tag="v"):
        obj = dict(obj)
        obj.setdefault("property", self.prop)
        obj.setdefault("seed", self.seed)
        obj.setdefault("tier", self.tier)
        n = len(self.violations) + len(self.known)
        path = os.path.join(REPLAY, "%s_%s_%d_%d.json" % (self.prop, tag, self.seed, n))
        with open(path, "w") as f:
            json.dump(obj, f, indent=1, default=str)
        return path

    def violation(self, obj, found_input=True):
        """Report a violation unless it matches a known finding."""
        kf = match_known(self.prop, obj)
        if kf is not None:
            if kf["id"] not in [k["id"] for k in self.known]:
                self.known.append(kf)
            return False
        path = self.replay_file(obj)
        self.violations.append((path, "" if found_input else " no-failing-input-found"))
        return True

    def finish(self):
        self.cov["distinct_nontrivial"] = len(self._distinct)
        if self.notes:
            self.cov["notes"] = self.notes
        for kf in self.known:
            print("KNOWN-FINDING: property=%s %s" % (self.prop, kf["what"]))
        # every finding listed for this property is printed on every run, whether or not this run's inputs reached it
        # (the ones reached above carry their replay evidence; the others are marked)
        seen_ids = {k["id"] for k in self.known}
        listed_not_seen = [k for k in known_findings().get("findings", []) if k["property"] == self.prop and k["id"] not in seen_ids]
        for kf in listed_not_seen:
            print("KNOWN-FINDING: property=%s %s [listed in known_findings.json; not re-observed by this run's inputs]" % (self.prop, kf["what"]))
        ev = {
            "property_id": self.prop, "tier": self.tier, "seed": self.seed, "level": self.level,
            "coverage": self.cov, "assumptions": self.assumptions,
            "wall_s": round(time.time() - self.t0, 2), "violations": len(self.violations),
        }
        if self.known:
            ev["known_findings_matched"] = [k["id"] for k in self.known]
        if listed_not_seen:
            ev["known_findings_listed_not_reobserved"] = [k["id"] for k in listed_not_seen]
        with open(os.path.join(EVID, self.prop + ".json"), "w") as f:
            json.dump(ev, f, indent=1, default=str)
        seen = set()
        for path, suffix in self.violations:
            if path in seen:
                continue
            seen.add(path)
            print("VIOLATION property=%s replay=%s%s" % (self.prop, path, suffix))
        print("%s %s: %d evaluations, %d distinct non-trivial, %d violation(s), %d known finding(s), %.1fs" % (
            self.prop, self.tier, self.cov["evaluations"], self.cov["distinct_nontrivial"],
            len(self.violations), len(self.known), time.time() - self.t0))
        return 1 if self.violations else 0


_KF = None


def known_findings():
    global _KF
    if _KF is None:
        p = os.path.join(VERIF, "known_findings.json")
        try:
            _KF = json.load(open(p))
        except FileNotFoundError:
            _KF = {"findings": [], "fixed": []}
    return _KF


def match_known(prop, obj):
    """A known finding is keyed by a class label computed by the check itself from the failing
    case (`obj['class']`), never by the mere property id."""
    cls = obj.get("class")
    if not cls:
        return None
    for k in known_findings().get("findings", []):
        if k["property"] == prop and k["class"] == cls:
            return k
    return None


def infra_error(prop, msg):
    """Infrastructure failure (harness does not compile, tool missing): exit 2, no VIOLATION."""
    log("INFRASTRUCTURE-ERROR %s: %s" % (prop, msg))
    print("INFRASTRUCTURE-ERROR property=%s (%s)" % (prop, msg.split("\n")[0][:200]))
    sys.exit(2)
